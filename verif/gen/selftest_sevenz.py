"""Self-test of verif.gen.sevenz.   PYTHONPATH=/verif /venv/bin/python -B -m verif.gen.selftest_sevenz

Contains an independent 7z *reader* (Reader7z, written from 7zFormat.txt, shares no code with the writer) that parses every
header field strictly, decodes the folders with the lzma module and verifies all CRCs.  Checks:
  1. number / bit-vector primitives against the reader's decoders
  2. round trip writer -> Reader7z for every option and a hostile name grammar          (failure = WRITER-INVALID)
  3. the repository's fixture test_archive.7z parsed field by field by Reader7z and rebuilt by the writer with the
     fixture's own options: both must agree on the layout                                  (failure = WRITER-INVALID)
  4. forged archives: the reader must notice exactly the forged field                       (failure = WRITER-INVALID)
  5. the library's reader (SevenZipFile, read_archive) on the same valid archives          (mismatch = EXTRACTOR-DISAGREES)
  6. if bsdtar is installed: libarchive's 7-Zip reader lists / extracts the same valid archives (failure = WRITER-INVALID)
Exit code is 0 unless the self-test itself crashes; WRITER-INVALID lines are bugs of the writer.
"""
from __future__ import annotations

import io
import itertools
import lzma
import os
import shutil
import struct
import subprocess
import sys
import tempfile
import zlib

from verif.gen import sevenz as W
from verif.gen.tokens import Tokens, find_tokens

FIXTURE = "/repo/sharepoint2text/tests/resources/archives/test_archive.7z"


# =================================================================================================== independent reader
class Invalid7z(Exception):
    pass


class Encrypted7z(Exception):
    pass


PROP_NAMES = {0: "End", 1: "Header", 2: "ArchiveProperties", 3: "AdditionalStreamsInfo", 4: "MainStreamsInfo", 5: "FilesInfo",
              6: "PackInfo", 7: "UnPackInfo", 8: "SubStreamsInfo", 9: "Size", 10: "CRC", 11: "Folder", 12: "CodersUnPackSize",
              13: "NumUnPackStream", 14: "EmptyStream", 15: "EmptyFile", 16: "Anti", 17: "Names", 18: "CTime", 19: "ATime",
              20: "MTime", 21: "WinAttributes", 22: "Comment", 23: "EncodedHeader", 24: "StartPos", 25: "Dummy"}


class Cur:
    def __init__(self, b: bytes):
        self.b, self.p = b, 0

    def take(self, n: int) -> bytes:
        if n < 0 or self.p + n > len(self.b):
            raise Invalid7z(f"header truncated at {self.p} (+{n})")
        r = self.b[self.p:self.p + n]
        self.p += n
        return r

    def u8(self) -> int:
        return self.take(1)[0]

    def u32(self) -> int:
        return struct.unpack("<I", self.take(4))[0]

    def u64(self) -> int:
        return struct.unpack("<Q", self.take(8))[0]

    def number(self) -> int:
        first = self.u8()
        extra = 0
        while extra < 8 and first & (0x80 >> extra):
            extra += 1
        low = int.from_bytes(self.take(extra), "little")
        if extra == 8:
            return low
        high = first & ((1 << (7 - extra)) - 1)
        return (high << (8 * extra)) | low

    def bits(self, n: int) -> list:
        raw = self.take((n + 7) // 8)
        return [bool(raw[i >> 3] & (0x80 >> (i & 7))) for i in range(n)]

    def opt_bits(self, n: int) -> list:
        """BYTE AllAreDefined; if 0 a bit vector follows"""
        return [True] * n if self.u8() else self.bits(n)

    def digests(self, n: int) -> list:
        d = self.opt_bits(n)
        return [self.u32() if x else None for x in d]


class Reader7z:
    """Strict reader.  After construction: .trace (list of property names in file order), .info (dict of all header
    fields), .files (list of dicts).  extract() -> list of (name, kind, data) with kind in file/dir/empty."""

    def __init__(self, data: bytes):
        self.data = data
        self.trace = []
        self.info = {}
        self.files = []
        self.main = None
        if data[:6] != b"7z\xbc\xaf\x27\x1c":
            raise Invalid7z("signature")
        if data[6] != 0:
            raise Invalid7z("major version")
        self.info["version"] = (data[6], data[7])
        if len(data) < 32:
            raise Invalid7z("short signature header")
        start_crc, = struct.unpack("<I", data[8:12])
        if zlib.crc32(data[12:32]) & 0xFFFFFFFF != start_crc:
            raise Invalid7z("StartHeaderCRC")
        off, size, crc = struct.unpack("<QQI", data[12:32])
        self.info["next_header"] = (off, size, crc)
        if 32 + off + size != len(data):
            raise Invalid7z(f"next header does not end at EOF: 32+{off}+{size} != {len(data)}")
        hdr = data[32 + off:32 + off + size]
        if zlib.crc32(hdr) & 0xFFFFFFFF != crc:
            raise Invalid7z("NextHeaderCRC")
        self.end_of_packs = 32 + off
        if size == 0:
            self.info["empty_archive"] = True
            return
        cur = Cur(hdr)
        pid = cur.u8()
        depth = 0
        while pid == 0x17:
            self.trace.append("EncodedHeader")
            si = self._streams_info(cur, "enc")
            if cur.p != len(cur.b):
                raise Invalid7z("bytes after EncodedHeader StreamsInfo")
            self.info.setdefault("encoded_header", []).append(si)
            if len(si["folders"]) != 1:
                raise Invalid7z("encoded header needs exactly one folder")
            streams = self._decode_folders(si, limit=self.end_of_packs)
            self.end_of_packs = min(self.end_of_packs, 32 + si["pack_pos"])
            cur = Cur(streams[0][0])
            pid = cur.u8()
            depth += 1
            if depth > 4:
                raise Invalid7z("encoded header nesting")
        if pid != 0x01:
            raise Invalid7z(f"expected Header, got {pid:#x}")
        self.trace.append("Header")
        self._header(cur)
        if cur.p != len(cur.b):
            raise Invalid7z(f"{len(cur.b) - cur.p} unparsed byte(s) after the header")

    # ---------------------------------------------------------------------------------------------- header structures
    def _t(self, name, tag):
        self.trace.append(f"{tag}.{name}" if tag else name)

    def _streams_info(self, cur: Cur, tag: str) -> dict:
        si = {"pack_pos": 0, "pack_sizes": [], "pack_crcs": [], "folders": [], "num_unpack": None, "sub_sizes": None,
              "sub_crcs": None, "has_substreams": False}
        pid = cur.u8()
        if pid == 0x06:
            self._t("PackInfo", tag)
            si["pack_pos"] = cur.number()
            n = cur.number()
            pid = cur.u8()
            if pid == 0x09:
                self._t("PackInfo.Size", tag)
                si["pack_sizes"] = [cur.number() for _ in range(n)]
                pid = cur.u8()
            elif n:
                raise Invalid7z("pack streams without sizes")
            si["pack_crcs"] = [None] * n
            if pid == 0x0A:
                self._t("PackInfo.CRC", tag)
                si["pack_crcs"] = cur.digests(n)
                pid = cur.u8()
            if pid != 0:
                raise Invalid7z(f"PackInfo: expected End, got {pid:#x}")
            pid = cur.u8()
        if pid == 0x07:
            self._t("UnPackInfo", tag)
            if cur.u8() != 0x0B:
                raise Invalid7z("UnPackInfo: expected Folder")
            nf = cur.number()
            if cur.u8() != 0:
                raise Invalid7z("external folders")
            folders = [self._folder(cur) for _ in range(nf)]
            self._t(f"Folder*{nf}", tag)
            if cur.u8() != 0x0C:
                raise Invalid7z("UnPackInfo: expected CodersUnPackSize")
            for f in folders:
                f["unpack_sizes"] = [cur.number() for _ in range(f["nout"])]
            pid = cur.u8()
            crcs = [None] * nf
            if pid == 0x0A:
                self._t("UnPackInfo.CRC", tag)
                crcs = cur.digests(nf)
                pid = cur.u8()
            for f, c in zip(folders, crcs):
                f["crc"] = c
            if pid != 0:
                raise Invalid7z(f"UnPackInfo: expected End, got {pid:#x}")
            si["folders"] = folders
            pid = cur.u8()
        nf = len(si["folders"])
        counts = [1] * nf
        if pid == 0x08:
            self._t("SubStreamsInfo", tag)
            si["has_substreams"] = True
            pid = cur.u8()
            if pid == 0x0D:
                self._t("SubStreamsInfo.NumUnPackStream", tag)
                counts = [cur.number() for _ in range(nf)]
                si["num_unpack"] = list(counts)
                pid = cur.u8()
            sizes = []
            if pid == 0x09:
                self._t("SubStreamsInfo.Size", tag)
                for c in counts:
                    sizes.append([cur.number() for _ in range(max(0, c - 1))])
                si["sub_sizes"] = sizes
                pid = cur.u8()
            elif any(c > 1 for c in counts):
                raise Invalid7z("folders with several streams but no substream sizes")
            if pid == 0x0A:
                self._t("SubStreamsInfo.CRC", tag)
                unknown = sum(c for f, c in zip(si["folders"], counts) if not (c == 1 and f["crc"] is not None))
                si["sub_crcs"] = cur.digests(unknown)
                pid = cur.u8()
            if pid != 0:
                raise Invalid7z(f"SubStreamsInfo: expected End, got {pid:#x}")
            pid = cur.u8()
        si["counts"] = counts
        if pid != 0:
            raise Invalid7z(f"StreamsInfo: expected End, got {pid:#x}")
        if sum(f["npacked"] for f in si["folders"]) != len(si["pack_sizes"]):
            raise Invalid7z("number of pack streams != sum of the folders' packed streams")
        return si

    def _folder(self, cur: Cur) -> dict:
        nc = cur.number()
        if not 1 <= nc <= 32:
            raise Invalid7z(f"NumCoders {nc}")
        coders = []
        nin = nout = 0
        for _ in range(nc):
            flags = cur.u8()
            if flags & 0xC0:
                raise Invalid7z("reserved coder flag bits")
            mid = cur.take(flags & 0x0F)
            ci, co = 1, 1
            if flags & 0x10:
                ci, co = cur.number(), cur.number()
            props = cur.take(cur.number()) if flags & 0x20 else None
            coders.append({"id": mid, "nin": ci, "nout": co, "props": props, "in0": nin, "out0": nout})
            nin += ci
            nout += co
        binds = [(cur.number(), cur.number()) for _ in range(nout - 1)]
        npacked = nin - len(binds)
        if npacked < 1:
            raise Invalid7z("folder without packed stream")
        if npacked == 1:
            bound = {b[0] for b in binds}
            packed = [i for i in range(nin) if i not in bound]
            if len(packed) != 1:
                raise Invalid7z("cannot determine the packed stream")
        else:
            packed = [cur.number() for _ in range(npacked)]
        return {"coders": coders, "binds": binds, "packed": packed, "nin": nin, "nout": nout, "npacked": npacked}

    def _header(self, cur: Cur):
        pid = cur.u8()
        if pid == 0x02:
            self._t("ArchiveProperties", "")
            while True:
                t = cur.u8()
                if t == 0:
                    break
                cur.take(cur.number())
            pid = cur.u8()
        if pid == 0x03:
            self._t("AdditionalStreamsInfo", "")
            self.info["additional"] = self._streams_info(cur, "add")
            pid = cur.u8()
        if pid == 0x04:
            self._t("MainStreamsInfo", "")
            self.main = self._streams_info(cur, "main")
            pid = cur.u8()
        if pid == 0x05:
            self._t("FilesInfo", "")
            self._files_info(cur)
            pid = cur.u8()
        if pid != 0:
            raise Invalid7z(f"Header: expected End, got {pid:#x}")

    def _files_info(self, cur: Cur):
        n = cur.number()
        self.info["num_files"] = n
        es = [False] * n
        ef = anti = None
        names = None
        times = {}
        attrs = [None] * n
        seen = set()
        while True:
            pid = cur.u8()
            if pid == 0:
                break
            size = cur.number()
            sub = Cur(cur.take(size))
            self._t(PROP_NAMES.get(pid, hex(pid)), "files")
            if pid != 0x19 and pid in seen:
                raise Invalid7z(f"duplicate file property {pid:#x}")
            seen.add(pid)
            if pid == 0x0E:
                es = sub.bits(n)
            elif pid == 0x0F:
                ef = sub.bits(sum(es))
            elif pid == 0x10:
                anti = sub.bits(sum(es))
            elif pid == 0x11:
                if sub.u8() != 0:
                    raise Invalid7z("external names")
                raw = sub.take(len(sub.b) - 1)
                if len(raw) % 2:
                    raise Invalid7z("odd names size")
                units = struct.unpack(f"<{len(raw) // 2}H", raw)
                names, curname = [], []
                for u in units:
                    if u == 0:
                        names.append(struct.pack(f"<{len(curname)}H", *curname).decode("utf-16-le", "surrogatepass"))
                        curname = []
                    else:
                        curname.append(u)
                if curname:
                    raise Invalid7z("last name not terminated")
                if len(names) != n:
                    raise Invalid7z(f"{len(names)} names for {n} files")
            elif pid in (0x12, 0x13, 0x14):
                d = sub.opt_bits(n)
                if sub.u8() != 0:
                    raise Invalid7z("external times")
                times[pid] = [sub.u64() if x else None for x in d]
            elif pid == 0x15:
                d = sub.opt_bits(n)
                if sub.u8() != 0:
                    raise Invalid7z("external attributes")
                attrs = [sub.u32() if x else None for x in d]
            elif pid == 0x19:
                if any(sub.b):
                    raise Invalid7z("non-zero dummy")
                sub.p = len(sub.b)
            elif pid == 0x18:
                d = sub.opt_bits(n)
                if sub.u8() != 0:
                    raise Invalid7z("external start positions")
                [sub.u64() for x in d if x]
            else:
                raise Invalid7z(f"unknown file property {pid:#x}")
            if sub.p != len(sub.b):
                raise Invalid7z(f"file property {pid:#x}: size {size} but {sub.p} bytes used")
        if n and names is None:
            raise Invalid7z("files without names")
        if ef is not None and 0x0E not in seen:
            raise Invalid7z("EmptyFile without EmptyStream")
        k = 0
        for i in range(n):
            f = {"name": names[i], "empty_stream": es[i], "attrs": attrs[i], "mtime": times.get(0x14, [None] * n)[i],
                 "empty_file": False, "anti": False}
            if es[i]:
                f["empty_file"] = bool(ef[k]) if ef is not None else False
                f["anti"] = bool(anti[k]) if anti is not None else False
                k += 1
            f["kind"] = "file" if not es[i] else ("empty" if f["empty_file"] else "dir")
            self.files.append(f)

    # ---------------------------------------------------------------------------------------------- decoding
    def _decode_folders(self, si: dict, limit: int) -> list:
        """-> per folder: list of substream bytes (CRC-verified)"""
        out = []
        pack_index = 0
        sub_crc_iter = iter(si["sub_crcs"] or [])
        for k, f in enumerate(si["folders"]):
            # folder k's pack streams start at 32 + PackPos + sum of the sizes of all earlier pack streams
            offset = 32 + si["pack_pos"] + sum(si["pack_sizes"][:pack_index])
            packs = []
            for j in range(f["npacked"]):
                size = si["pack_sizes"][pack_index + j]
                if offset + size > limit:
                    raise Invalid7z(f"pack stream {pack_index + j} [{offset}, +{size}) runs past {limit}")
                blob = self.data[offset:offset + size]
                want = si["pack_crcs"][pack_index + j]
                if want is not None and zlib.crc32(blob) & 0xFFFFFFFF != want:
                    raise Invalid7z(f"pack stream {pack_index + j} CRC")
                packs.append(blob)
                offset += size
            pack_index += f["npacked"]
            for c in f["coders"]:
                if c["id"][:3] == b"\x06\xf1\x07":
                    raise Encrypted7z(f"folder {k} uses 7zAES")
                if (c["nin"], c["nout"]) != (1, 1):
                    raise Invalid7z("reader supports simple coders only")
            if f["npacked"] != 1:
                raise Invalid7z("reader supports one packed stream per folder")
            # walk from the packed in-stream to the unbound out-stream
            in_index = f["packed"][0]
            data = packs[0]
            steps = 0
            while True:
                coder_index = in_index                      # simple coders: stream index == coder index
                c = f["coders"][coder_index]
                data = self._decode(c, data, f["unpack_sizes"][coder_index], k)
                nxt = [b for b in f["binds"] if b[1] == coder_index]
                if not nxt:
                    main_out = coder_index
                    break
                in_index = nxt[0][0]
                steps += 1
                if steps > len(f["coders"]):
                    raise Invalid7z("bind pair cycle")
            unpack = f["unpack_sizes"][main_out]
            if len(data) != unpack:
                raise Invalid7z(f"folder {k}: decoded {len(data)} bytes, header says {unpack}")
            if f["crc"] is not None and zlib.crc32(data) & 0xFFFFFFFF != f["crc"]:
                raise Invalid7z(f"folder {k} CRC")
            cnt = si["counts"][k]
            sizes = list(si["sub_sizes"][k]) if si["sub_sizes"] is not None else []
            if cnt == 0:
                if unpack:
                    raise Invalid7z("folder with data but zero streams")
                out.append([])
                continue
            if sum(sizes) > unpack:
                raise Invalid7z(f"folder {k}: substream sizes exceed the unpack size")
            sizes.append(unpack - sum(sizes))
            subs, p = [], 0
            for s in sizes:
                subs.append(data[p:p + s])
                p += s
            if not (cnt == 1 and f["crc"] is not None) and si["sub_crcs"] is not None:
                for s in subs:
                    want = next(sub_crc_iter)
                    if want is not None and zlib.crc32(s) & 0xFFFFFFFF != want:
                        raise Invalid7z(f"folder {k}: substream CRC")
            out.append(subs)
        return out

    @staticmethod
    def _decode(c: dict, data: bytes, unpack_size: int, k: int) -> bytes:
        mid, props = c["id"], c["props"]
        if mid == b"\x00":
            if props is not None:
                raise Invalid7z("copy coder with properties")
            return data
        if mid == b"\x03\x01\x01":
            if props is None or len(props) != 5:
                raise Invalid7z("LZMA needs 5 property bytes")
            d = props[0]
            if d >= 9 * 5 * 5:
                raise Invalid7z("LZMA lc/lp/pb byte")
            lc, lp, pb = d % 9, (d // 9) % 5, d // 45
            dict_size = max(4096, struct.unpack("<I", props[1:])[0])
            dec = lzma.LZMADecompressor(format=lzma.FORMAT_RAW,
                                        filters=[{"id": lzma.FILTER_LZMA1, "dict_size": dict_size, "lc": lc, "lp": lp, "pb": pb}])
            try:
                out = dec.decompress(data)
            except lzma.LZMAError as e:
                raise Invalid7z(f"folder {k}: LZMA stream: {e}")
            if dec.eof and dec.unused_data:
                raise Invalid7z(f"folder {k}: {len(dec.unused_data)} byte(s) after the LZMA end marker")
            if len(out) < unpack_size:
                raise Invalid7z(f"folder {k}: LZMA stream too short")
            if len(out) > unpack_size:
                raise Invalid7z(f"folder {k}: LZMA stream longer than the unpack size")
            return out
        if mid == b"\x21":
            if props is None or len(props) != 1 or props[0] > 40:
                raise Invalid7z("LZMA2 needs 1 property byte <= 40")
            p = props[0]
            dict_size = 0xFFFFFFFF if p == 40 else (2 | (p & 1)) << (p // 2 + 11)
            dec = lzma.LZMADecompressor(format=lzma.FORMAT_RAW, filters=[{"id": lzma.FILTER_LZMA2, "dict_size": dict_size}])
            try:
                out = dec.decompress(data)
            except lzma.LZMAError as e:
                raise Invalid7z(f"folder {k}: LZMA2 stream: {e}")
            if not dec.eof:
                raise Invalid7z(f"folder {k}: LZMA2 stream has no end marker")
            if dec.unused_data:
                raise Invalid7z(f"folder {k}: bytes after the LZMA2 end marker")
            return out
        raise Invalid7z(f"unsupported method {mid.hex()}")

    def extract(self) -> list:
        """-> [(name, kind, data)] in file order; kind file/dir/empty"""
        subs = []
        if self.main is not None:
            if 32 + self.main["pack_pos"] + sum(self.main["pack_sizes"]) > self.end_of_packs:
                raise Invalid7z("pack streams overlap the header")
            for s in self._decode_folders(self.main, limit=self.end_of_packs):
                subs += s
        with_stream = [f for f in self.files if not f["empty_stream"]]
        if len(with_stream) != len(subs):
            raise Invalid7z(f"{len(with_stream)} file(s) without EmptyStream bit but {len(subs)} data stream(s)")
        it = iter(subs)
        return [(f["name"], f["kind"], next(it) if not f["empty_stream"] else b"") for f in self.files]


# =================================================================================================== bookkeeping
COUNTS = {"OK": 0, "WRITER-INVALID": 0, "EXTRACTOR-DISAGREES": 0, "FORGED-OK": 0, "NOTE": 0}
DISAGREE = []


def line(status, name, detail=""):
    COUNTS[status] += 1
    if status == "EXTRACTOR-DISAGREES":
        DISAGREE.append((name, detail))
    print(f"{status:20s} {name}" + (f"   {detail}" if detail else ""))


def expected(members, opts=None):
    """ground truth of an honest member list: [(name, kind, data)]"""
    if (opts or {}).get("empty_between"):
        members = W.with_empty_between(members)
    out = []
    for m in members:
        if m.get("dir"):
            out.append((m["name"], "dir", b""))
        elif m.get("data"):
            out.append((m["name"], "file", bytes(m["data"])))
        else:
            out.append((m["name"], "empty", b""))
    return out


def roundtrip(name, members, opts):
    """writer -> independent reader; returns the archive bytes or None"""
    try:
        assert W.honest(members, opts), "honest() is False for an honest archive"
        blob = W.sevenz(members, opts)
        assert blob == W.sevenz(members, opts), "not deterministic"
        r = Reader7z(blob)
        got = r.extract()
        want = expected(members, opts)
        if got != want:
            raise Invalid7z(f"members differ: got {short(got)} want {short(want)}")
        mm = W.with_empty_between(members) if (opts or {}).get("empty_between") else members
        for f, m in zip(r.files, mm):
            if f["attrs"] != (None if m.get("attrs") is None else m["attrs"] & 0xFFFFFFFF):
                raise Invalid7z(f"attrs of {m['name']!r}: {f['attrs']} != {m.get('attrs')}")
            wt = None if m.get("mtime") is None else (m["mtime"] + 11644473600) * 10_000_000
            if f["mtime"] != wt:
                raise Invalid7z(f"mtime of {m['name']!r}: {f['mtime']} != {wt}")
        return blob
    except (Invalid7z, Encrypted7z, AssertionError, Exception) as e:       # noqa
        line("WRITER-INVALID", name, f"{type(e).__name__}: {e}")
        return None


def short(x, n=200):
    s = repr(x)
    return s if len(s) <= n else s[:n] + "..."


# =================================================================================================== libarchive (optional)
def _find_bsdtar():
    for c in (shutil.which("bsdtar"), "/root/miniconda/bin/bsdtar", "/usr/bin/bsdtar"):
        if c and os.path.exists(c):
            return c
    return None


BSDTAR = _find_bsdtar()


def bsdtar_check(name, members, opts, blob):
    """second independent reader: libarchive's 7-Zip reader (a real-world implementation).  Only used for harmless names.
    Known libarchive limits, skipped: partially defined attributes (libarchive reads the External byte before the
    'defined' bit vector, 7zFormat.txt and 7-Zip put it after), archives without SubStreamsInfo, the explicit empty header."""
    if BSDTAR is None:
        return None
    mm = W.with_empty_between(members) if (opts or {}).get("empty_between") else members
    attrs = [m.get("attrs") is not None for m in mm]
    if (any(attrs) and not all(attrs)) or (opts or {}).get("substreams") == "omit" or (not mm and (opts or {}).get("empty_as_header")):
        return "skipped"
    env = dict(os.environ, LC_ALL="C.UTF-8")
    with tempfile.TemporaryDirectory(prefix="sp2t-verif-st7z-") as td:
        p = os.path.join(td, "t.7z")
        with open(p, "wb") as fh:
            fh.write(blob)
        r1 = subprocess.run([BSDTAR, "-tf", p], capture_output=True, env=env)
        r2 = subprocess.run([BSDTAR, "-xOf", p], capture_output=True, env=env)
    want_names = [m["name"] + ("/" if m.get("dir") else "") for m in mm]
    want_data = b"".join(bytes(m.get("data") or b"") for m in mm)
    got_names = r1.stdout.decode("utf-8", "replace").splitlines()
    if r1.returncode or r2.returncode or got_names != want_names or r2.stdout != want_data:
        line("WRITER-INVALID", name + " [libarchive]", f"rc={r1.returncode}/{r2.returncode} names={short(got_names, 80)} stderr={short(r1.stderr + r2.stderr, 120)}")
        return "bad"
    return "ok"


# =================================================================================================== library side
def lib_list_extract(blob):
    """SevenZipFile.list() + extractall() -> [(name, is_dir, size, bytes or None)]"""
    from sharepoint2text.parsing.extractors.util.sevenzip import SevenZipFile
    with SevenZipFile(io.BytesIO(blob), "r") as z:
        infos = z.list()
        with tempfile.TemporaryDirectory(prefix="sp2t-verif-st7z-") as td:
            z.extractall(td)
            out = []
            for fi in infos:
                p = os.path.normpath(os.path.join(td, fi.filename)) if fi.filename and not os.path.isabs(fi.filename) else None
                data = None
                if p and p.startswith(td + os.sep) and os.path.isfile(p):
                    with open(p, "rb") as fh:
                        data = fh.read()
                out.append((fi.filename, fi.is_directory, fi.uncompressed, data))
    return out


def lib_attrs(blob):
    from sharepoint2text.parsing.extractors.util.sevenzip import SevenZipFile
    with SevenZipFile(io.BytesIO(blob), "r") as z:
        return [fi.attributes for fi in z.list()]


def lib_read_archive(blob, path="t.7z"):
    from sharepoint2text.parsing.extractors.archive_extractor import read_archive
    return [(r.get_metadata().filename, r.get_full_text()) for r in read_archive(io.BytesIO(blob), path)]


def lib_check(name, members, opts, blob):
    """compare the library with the ground truth on a VALID archive (validated by Reader7z before)"""
    want = expected(members, opts)
    # (a) low level reader
    try:
        got = lib_list_extract(blob)
        attrs = lib_attrs(blob)
        bad = []
        if [g[0] for g in got] != [w[0] for w in want]:
            bad.append(f"names {short([g[0] for g in got])} != {short([w[0] for w in want])}")
        else:
            for g, w in zip(got, want):
                if w[1] == "file" and g[3] != w[2]:
                    bad.append(f"{w[0]!r}: bytes {short(g[3], 40)} != {short(w[2], 40)}")
                if w[1] == "file" and g[2] != len(w[2]):
                    bad.append(f"{w[0]!r}: size {g[2]} != {len(w[2])}")
                if (w[1] == "dir") != g[1] and w[1] != "empty":
                    bad.append(f"{w[0]!r}: is_directory {g[1]} for kind {w[1]}")
            for a, m in zip(attrs, W.with_empty_between(members) if (opts or {}).get("empty_between") else members):
                if a != ((m.get("attrs") or 0) & 0xFFFFFFFF):
                    bad.append(f"{m['name']!r}: attributes {a:#x} != {(m.get('attrs') or 0):#x}")
        if bad:
            line("EXTRACTOR-DISAGREES", name + " [SevenZipFile]", "; ".join(bad[:3]))
        else:
            line("OK", name + " [SevenZipFile]")
    except Exception as e:
        line("EXTRACTOR-DISAGREES", name + " [SevenZipFile]", f"{type(e).__name__}: {e}")
    # (b) read_archive: every visible supported member with data yields its tokens
    want_ra = [(os.path.basename(n), find_tokens(d.decode("utf-8", "replace"))) for n, k, d in want
               if k == "file" and n.endswith(".txt") and not os.path.basename(n).startswith(".")]
    try:
        got = [(os.path.basename(n or ""), find_tokens(t)) for n, t in lib_read_archive(blob)]
        if got != want_ra:
            line("EXTRACTOR-DISAGREES", name + " [read_archive]", f"got {short(got)} want {short(want_ra)}")
        else:
            line("OK", name + " [read_archive]")
    except Exception as e:
        line("EXTRACTOR-DISAGREES", name + " [read_archive]", f"{type(e).__name__}: {e} (cause {e.__cause__!r})"[:300])


# =================================================================================================== the checks
def check_primitives():
    vals = [0, 1, 127, 128, 255, 256, 1774, 16383, 16384, (1 << 21) - 1, 1 << 21, (1 << 28) - 1, 1 << 28, (1 << 35) - 1, 1 << 35,
            (1 << 42) - 1, 1 << 42, (1 << 49) - 1, 1 << 49, (1 << 56) - 1, 1 << 56, (1 << 63), (1 << 64) - 1]
    bad = []
    for v in vals:
        e = W.num(v)
        c = Cur(e)
        if c.number() != v or c.p != len(e):
            bad.append(v)
    # encodings taken from 7zFormat.txt's table / the fixture
    known = {0: "00", 127: "7f", 128: "8080", 1774: "86ee", 162: "80a2", 230: "80e6", 16383: "bfff", 16384: "c00040",
             (1 << 64) - 1: "ff" + "ff" * 8}
    for v, h in known.items():
        if W.num(v).hex() != h:
            bad.append((v, W.num(v).hex(), h))
    line("OK" if not bad else "WRITER-INVALID", "primitive: NUMBER encoding (boundaries of every length, known encodings)", short(bad) if bad else "")
    bad = []
    for n in range(0, 20):
        for pattern in (lambda i: True, lambda i: False, lambda i: i % 3 == 0, lambda i: i == n - 1):
            bits = [pattern(i) for i in range(n)]
            if Cur(W.bitvec(bits)).bits(n) != bits or len(W.bitvec(bits)) != (n + 7) // 8:
                bad.append(bits)
    if W.bitvec([True, False, False, False, False, False, False, False, True]) != b"\x80\x80":
        bad.append("msb-first")
    line("OK" if not bad else "WRITER-INVALID", "primitive: bit vectors (MSB first, zero padded)", short(bad) if bad else "")
    bad = []
    for crcs in ([1, 2, 3], [None, 5, None], [None], [7], [None] * 9 + [1]):
        if Cur(W.digests(crcs)).digests(len(crcs)) != crcs:
            bad.append(crcs)
    line("OK" if not bad else "WRITER-INVALID", "primitive: Digests (AllAreDefined / defined vector)", short(bad) if bad else "")
    bad = [d for d in (1, 4096, 4097, 6144, 65536, 65537, 1 << 20, 3 << 20, (1 << 32) - 1)
           if not (W.lzma2_dict_prop(d)[1] >= d and (W.lzma2_dict_prop(d)[0] == 0 or W.lzma2_dict_prop(W.lzma2_dict_prop(d)[1])[0] == W.lzma2_dict_prop(d)[0]))]
    line("OK" if not bad else "WRITER-INVALID", "primitive: LZMA2 dictionary size code", short(bad) if bad else "")


def member_sets(tk: Tokens):
    def txt(name, n=1):
        return {"name": name, "data": " ".join(tk.new("B") for _ in range(n)).encode()}
    return {
        "one-file": [txt("a.txt")],
        "two-files": [txt("a.txt"), txt("b.txt", 2)],
        "three-files": [txt("a.txt"), txt("b.txt", 2), txt("c.txt", 3)],
        "file-dir-file": [txt("a.txt"), {"name": "d", "data": None, "dir": True}, txt("d/b.txt")],
        "file-empty-file": [txt("a.txt"), {"name": "e.txt", "data": None, "empty_file": True}, txt("c.txt")],
        "empty-first-and-b''": [{"name": "e.txt", "data": b""}, txt("a.txt"), {"name": "d", "dir": True, "data": None}],
        "only-dir-and-empty": [{"name": "d", "data": None, "dir": True}, {"name": "e.txt", "data": None, "empty_file": True}],
        "five-mixed": [txt("a.txt"), {"name": "d", "data": None, "dir": True}, txt("d/b.txt", 2),
                       {"name": "e.txt", "data": None, "empty_file": True}, txt("c.txt", 3), txt("z.txt")],
        "attrs+mtime": [dict(txt("a.txt"), attrs=0x20, mtime=0), {"name": "d", "data": None, "dir": True, "attrs": 0x10, "mtime": 86400},
                        dict(txt("d/b.txt"), attrs=0x81A48020, mtime=1700000000)],
        "partial-attrs": [dict(txt("a.txt"), attrs=0x20), txt("b.txt"), dict(txt("c.txt"), mtime=1)],
        "binary-64k": [{"name": "bin.txt", "data": bytes(range(256)) * 300}, txt("b.txt")],
    }


HOSTILE_NAMES = ["/abs.txt", "//h/abs.txt", "../up.txt", "a/../../up.txt", "..\\up.txt", "a\\b.txt", "C:\\x\\c.txt", "C:rel.txt",
                 "\\\\h\\s\\unc.txt", "", ".", "..", "a/", "a//b.txt", "./a.txt", ".hidden.txt", "__MACOSX/a.txt",
                 "a" * 251 + ".txt", "ü.txt", "日本語/ファイル.txt", "e\u0301.txt", "\U0001F600.txt", " lead.txt", "trail.txt ",
                 "a\nb.txt", "a\tb.txt", "nul\u0001.txt", "CON.txt", "a:b.txt", "a*?.txt"]


def check_roundtrips(tk: Tokens):
    sets = member_sets(tk)
    valid = []          # (name, members, opts, blob) for the library comparison
    minor = [{}, {"crc": "folder"}, {"crc": "none"}, {"always_num_unpack": True}, {"pack_crc": True}, {"pack_gap": 7},
             {"empty_between": True}, {"dict_size": 4096}, {"dict_size": 1 << 20},
             {"crc": "folder", "pack_crc": True, "pack_gap": 3, "always_num_unpack": True, "empty_between": True}]
    for sname, members in sets.items():
        for coder, layout, header in itertools.product(W.CODERS, W.LAYOUTS, ("plain", "encoded")):
            n_ok = 0
            failed = False
            for mo in minor:
                opts = dict({"coder": coder, "layout": layout, "header": header}, **mo)
                cname = f"roundtrip {sname} coder={coder} layout={layout} header={header} {mo}"
                blob = roundtrip(cname, members, opts)
                if blob is None:
                    failed = True
                    continue
                n_ok += 1
                if not mo or (sname == "three-files" and mo in ({"crc": "folder"}, {"empty_between": True}, {"pack_gap": 7}, {"crc": "none"},
                                                               {"always_num_unpack": True}, {"pack_crc": True})):
                    valid.append((f"{sname} coder={coder} layout={layout} header={header} {mo if mo else ''}".strip(), members, opts, blob))
            if not failed:
                line("OK", f"roundtrip {sname} coder={coder} layout={layout} header={header}", f"{n_ok} option variants")
    # substreams=omit (one stream per folder), header coders, empty archives
    m1 = sets["two-files"]
    for coder in W.CODERS:
        for crc in ("sub", "folder", "none"):
            o = {"coder": coder, "layout": "per_file", "substreams": "omit", "crc": crc}
            b = roundtrip(f"roundtrip substreams=omit {o}", m1, o)
            if b:
                line("OK", f"roundtrip substreams=omit coder={coder} crc={crc}")
                valid.append((f"two-files substreams=omit coder={coder} crc={crc}", m1, o, b))
    for hc in W.CODERS:
        o = {"header": "encoded", "header_coder": hc, "coder": "lzma2"}
        b = roundtrip(f"roundtrip header_coder={hc}", sets["five-mixed"], o)
        if b:
            line("OK", f"roundtrip encoded header with header_coder={hc}")
            valid.append((f"five-mixed header=encoded header_coder={hc}", sets["five-mixed"], o, b))
    for o in ({}, {"empty_as_header": True}, {"header": "encoded"}, {"empty_as_header": True, "header": "encoded"}):
        b = roundtrip(f"roundtrip zero members {o}", [], o)
        if b:
            line("OK", f"roundtrip zero members {o}", f"{len(b)} bytes")
            valid.append((f"zero-members {o}", [], o, b))
    try:
        W.sevenz(m1, {"layout": "solid", "substreams": "omit"})
        line("WRITER-INVALID", "substreams=omit with a 2-stream folder must raise")
    except ValueError:
        line("OK", "substreams=omit with a 2-stream folder raises ValueError")
    # refusal of unknown keys
    for bad_call in (lambda: W.sevenz([{"name": "a", "data": b"x", "symlink": "b"}]), lambda: W.sevenz([], {"coder": "ppmd"}),
                     lambda: W.sevenz([], {"volume": 2}), lambda: W.sevenz([], {"layout": "x"})):
        try:
            bad_call()
            line("WRITER-INVALID", "unknown constructor accepted silently")
        except NotImplementedError as e:
            line("OK", f"NotImplementedError for inexpressible input ({e})")
    # hostile names, one archive per name and all in one
    for layout in W.LAYOUTS:
        members = [{"name": nm, "data": tk.new("B").encode()} for nm in HOSTILE_NAMES]
        members += [{"name": nm + "/d", "data": None, "dir": True} for nm in HOSTILE_NAMES[:6]]
        b = roundtrip(f"roundtrip hostile names (all {len(members)} in one archive) layout={layout}", members, {"coder": "lzma2", "layout": layout})
        if b:
            line("OK", f"roundtrip hostile names ({len(members)} in one archive) layout={layout}")
    n = 0
    for nm in HOSTILE_NAMES:
        for kind in ("file", "dir", "empty"):
            m = {"name": nm, "data": tk.new("B").encode()} if kind == "file" else {"name": nm, "data": None, "dir": kind == "dir", "empty_file": kind == "empty"}
            for header in ("plain", "encoded"):
                if roundtrip(f"roundtrip hostile name {nm!r} as {kind} header={header}", [m], {"header": header}) is not None:
                    n += 1
    line("OK" if n == len(HOSTILE_NAMES) * 6 else "WRITER-INVALID", f"roundtrip hostile names one per archive: {n}/{len(HOSTILE_NAMES) * 6}")
    for bad_name in ("a\x00b",):
        try:
            W.sevenz([{"name": bad_name, "data": b"x"}])
            line("WRITER-INVALID", "NUL in a name accepted")
        except ValueError:
            line("OK", "NUL inside a name raises ValueError (not expressible in kNames)")
    return sets, valid


def describe(r: Reader7z) -> list:
    """field-by-field description of a parsed archive"""
    out = [f"version={r.info['version']} next_header(offset,size,crc)={r.info['next_header']}"]
    for si in r.info.get("encoded_header", []):
        f = si["folders"][0]
        out.append(f"encoded header: pack_pos={si['pack_pos']} pack_sizes={si['pack_sizes']} coder={f['coders'][0]['id'].hex()} "
                   f"props={f['coders'][0]['props'].hex() if f['coders'][0]['props'] else None} unpack={f['unpack_sizes']} crc={f['crc']}")
    m = r.main
    if m:
        out.append(f"main: pack_pos={m['pack_pos']} pack_sizes={m['pack_sizes']} pack_crcs={m['pack_crcs']}")
        for k, f in enumerate(m["folders"]):
            out.append(f"  folder {k}: coders={[(c['id'].hex(), c['props'].hex() if c['props'] else None) for c in f['coders']]} "
                       f"binds={f['binds']} unpack={f['unpack_sizes']} crc={f['crc']}")
        out.append(f"  substreams: num_unpack={m['num_unpack']} sizes={m['sub_sizes']} crcs={m['sub_crcs']}")
    for f in r.files:
        out.append(f"  file {f['name']!r} kind={f['kind']} attrs={f['attrs'] if f['attrs'] is None else hex(f['attrs'])} mtime={f['mtime']}")
    out.append("trace: " + " ".join(r.trace))
    return out


def check_fixture():
    with open(FIXTURE, "rb") as fh:
        fx = fh.read()
    try:
        r = Reader7z(fx)
        ex = r.extract()
    except Exception as e:
        line("WRITER-INVALID", "fixture: independent reader cannot read the repository fixture", f"{type(e).__name__}: {e}")
        return
    for d in describe(r):
        print("    fixture | " + d)
    line("OK", "fixture: Reader7z parses test_archive.7z (all CRCs verified)", f"{[(n, k, len(d)) for n, k, d in ex]}")
    # rebuild with the writer, using the fixture's own options
    m = r.main
    f0 = m["folders"][0]
    coder = {b"\x00": "copy", b"\x03\x01\x01": "lzma", b"\x21": "lzma2"}[f0["coders"][0]["id"]]
    counts = m["counts"]
    layout = "solid" if len(counts) == 1 else ("per_file" if all(c == 1 for c in counts) else "two_folders")
    header = "encoded" if r.info.get("encoded_header") else "plain"
    members = []
    for (n, k, d), f in zip(ex, r.files):
        mt = None if f["mtime"] is None else f["mtime"] // 10_000_000 - 11644473600
        members.append({"name": n, "data": d if k == "file" else None, "dir": k == "dir", "empty_file": k == "empty", "attrs": f["attrs"], "mtime": mt})
    opts = {"coder": coder, "layout": layout, "header": header}
    mine = W.sevenz(members, opts)
    try:
        r2 = Reader7z(mine)
        ex2 = r2.extract()
    except Exception as e:
        line("WRITER-INVALID", "fixture: rebuilt archive unreadable", f"{type(e).__name__}: {e}")
        return
    for d in describe(r2):
        print("    rebuilt | " + d)
    # layout agreement: same structure blocks in the same order (7-Zip's kDummy padding and sub-second mtime are optional)
    t1 = [t for t in r.trace if t != "files.Dummy"]
    t2 = r2.trace
    same_files = ex == ex2 and [(f["kind"], f["attrs"]) for f in r.files] == [(f["kind"], f["attrs"]) for f in r2.files]
    same_mtime = [None if f["mtime"] is None else f["mtime"] // 10_000_000 for f in r.files] == [None if f["mtime"] is None else f["mtime"] // 10_000_000 for f in r2.files]
    same_struct = (m["counts"] == r2.main["counts"] and m["sub_sizes"] == r2.main["sub_sizes"] and m["sub_crcs"] == r2.main["sub_crcs"]
                   and [f["unpack_sizes"] for f in m["folders"]] == [f["unpack_sizes"] for f in r2.main["folders"]]
                   and [[c["id"] for c in f["coders"]] for f in m["folders"]] == [[c["id"] for c in f["coders"]] for f in r2.main["folders"]]
                   and m["pack_pos"] == r2.main["pack_pos"] and len(m["pack_sizes"]) == len(r2.main["pack_sizes"]))
    detail = f"opts={opts}"
    if t1 != t2:
        detail += f" trace differs: fixture {t1} rebuilt {t2}"
    line("OK" if (t1 == t2 and same_files and same_mtime and same_struct) else "WRITER-INVALID",
         "fixture: writer rebuild agrees with the fixture on layout (property order, folders, substreams, CRCs, file table)", detail)
    try:
        ok = lib_list_extract(mine) == lib_list_extract(fx)
        line("OK" if ok else "EXTRACTOR-DISAGREES", "fixture: library reads fixture and rebuilt archive identically")
    except Exception as e:
        line("EXTRACTOR-DISAGREES", "fixture: library on rebuilt archive", f"{type(e).__name__}: {e}")


def check_forged(tk: Tokens):
    base = [{"name": "a.txt", "data": tk.new("B").encode()}, {"name": "b.txt", "data": tk.new("B").encode()}, {"name": "c.txt", "data": tk.new("B").encode()}]
    from sharepoint2text.parsing.exceptions import ExtractionFileEncryptedError

    def expect(name, members, opts, exc, needle):
        if W.honest(members, opts):
            line("WRITER-INVALID", name, "honest() is True for a forged archive")
            return None
        blob = W.sevenz(members, opts)
        try:
            Reader7z(blob).extract()
            line("WRITER-INVALID", name, "independent reader did not notice the forgery")
        except exc as e:
            if needle in str(e):
                line("FORGED-OK", name, f"reader: {type(e).__name__}: {e}")
            else:
                line("WRITER-INVALID", name, f"reader noticed something else: {e}")
        except Exception as e:
            line("WRITER-INVALID", name, f"reader: {type(e).__name__}: {e}")
        return blob

    for layout, k, mode in itertools.product(W.LAYOUTS, (0, 1, 2), ("single", "chain")):
        nf = {"solid": 1, "per_file": 3, "two_folders": 2}[layout]
        o = {"coder": "lzma2", "layout": layout, "aes_folder": k, "aes_mode": mode}
        if k >= nf:
            try:
                W.sevenz(base, o)
                line("WRITER-INVALID", f"aes_folder={k} beyond {nf} folder(s) accepted")
            except ValueError:
                line("OK", f"forged aes_folder={k} layout={layout}: ValueError (only {nf} folder(s))")
            continue
        blob = expect(f"forged aes_folder={k} mode={mode} layout={layout}", base, o, Encrypted7z, f"folder {k} uses 7zAES")
        if blob:
            try:
                r = lib_read_archive(blob)
                line("EXTRACTOR-DISAGREES", f"aes_folder={k} mode={mode} layout={layout} [read_archive]", f"no ExtractionFileEncryptedError, got {short(r)}")
            except ExtractionFileEncryptedError:
                line("OK", f"aes_folder={k} mode={mode} layout={layout} [read_archive] raises ExtractionFileEncryptedError")
            except Exception as e:
                line("EXTRACTOR-DISAGREES", f"aes_folder={k} mode={mode} layout={layout} [read_archive]", f"{type(e).__name__}: {e}")
    expect("forged no_streams (names only)", base, {"no_streams": True}, Invalid7z, "without EmptyStream bit but 0 data stream")
    expect("forged phantom member", base + [{"name": "p.txt", "data": None}], {}, Invalid7z, "4 file(s) without EmptyStream bit but 3")
    expect("forged empty_stream_bit on a member with data", [dict(base[0], empty_stream_bit=True), base[1]], {}, Invalid7z, "1 file(s) without EmptyStream bit but 2")
    expect("forged unpack_size_override +1 (copy)", base, {"unpack_size_override": 19}, Invalid7z, "header says 19")
    expect("forged unpack_size_override {1: 3} per_file lzma", base, {"coder": "lzma", "layout": "per_file", "unpack_size_override": {1: 3}}, Invalid7z, "folder 1")
    expect("forged num_files_override 5", base, {"num_files_override": 5}, Invalid7z, "3 names for 5 files")
    expect("forged num_files_override 2", base, {"num_files_override": 2}, Invalid7z, "3 names for 2 files")
    # the no_streams archive of directories / empty files only IS honest
    mm = [{"name": "d", "dir": True, "data": None}, {"name": "e.txt", "empty_file": True, "data": None}]
    if W.honest(mm, {"no_streams": True}) and W.sevenz(mm, {"no_streams": True}) == W.sevenz(mm):
        line("OK", "no_streams on stream-less members is the same (honest) archive")
    else:
        line("WRITER-INVALID", "no_streams on stream-less members")


def check_library(tk: Tokens, sets, valid):
    # simplest-term identity per feature
    t = tk.new("B")
    simplest = [("simplest: one txt member, copy/solid/plain", [{"name": "a.txt", "data": t.encode()}], {})]
    for coder in W.CODERS:
        for layout in W.LAYOUTS:
            for header in ("plain", "encoded"):
                simplest.append((f"simplest: one txt member coder={coder} layout={layout} header={header}",
                                 [{"name": "a.txt", "data": t.encode()}], {"coder": coder, "layout": layout, "header": header}))
    for label, extra in (("attrs=0x20", {"attrs": 0x20}), ("mtime=0", {"mtime": 0}), ("attrs unix ext", {"attrs": 0x81A48020})):
        simplest.append((f"simplest: one txt member with {label}", [dict({"name": "a.txt", "data": t.encode()}, **extra)], {}))
    simplest.append(("simplest: dir + file inside", [{"name": "d", "dir": True, "data": None}, {"name": "d/a.txt", "data": t.encode()}], {}))
    simplest.append(("simplest: dir(attrs 0x10) + file(attrs 0x20)", [{"name": "d", "dir": True, "data": None, "attrs": 0x10}, {"name": "d/a.txt", "data": t.encode(), "attrs": 0x20}], {}))
    simplest.append(("simplest: file(attrs 0x20) + file(attrs 0x20)", [{"name": "a.txt", "data": t.encode(), "attrs": 0x20}, {"name": "b.txt", "data": t.encode(), "attrs": 0x20}], {}))
    simplest.append(("simplest: empty file + file", [{"name": "e.txt", "empty_file": True, "data": None}, {"name": "a.txt", "data": t.encode()}], {}))
    simplest.append(("simplest: non-ASCII BMP name", [{"name": "ü.txt", "data": t.encode()}], {}))
    simplest.append(("simplest: non-BMP name (surrogate pair in UTF-16)", [{"name": "\U0001F600.txt", "data": t.encode()}], {}))
    simplest.append(("simplest: backslash name", [{"name": "a\\b.txt", "data": t.encode()}], {}))
    for hn in ("/abs.txt", "../up.txt", "a/../b.txt", "C:\\x.txt", ""):
        simplest.append((f"simplest: good member + member with hostile name {hn!r}", [{"name": "good.txt", "data": t.encode()}, {"name": hn, "data": t.encode()}], {}))
    for name, members, opts in simplest:
        blob = roundtrip(name, members, opts)
        if blob is not None:
            lib_check(name, members, opts, blob)
    for name, members, opts, blob in valid:
        lib_check(name, members, opts, blob)
    # the same archives through libarchive
    tally = {"ok": 0, "skipped": 0, "bad": 0}
    for name, members, opts, blob in [(n, m, o, W.sevenz(m, o)) for n, m, o in simplest if "name" not in n] + valid:
        r = bsdtar_check(name, members, opts, blob)
        if r is None:
            break
        tally[r] += 1
    if BSDTAR is None:
        line("NOTE", "bsdtar (libarchive) not found: second independent reader not used")
    else:
        line("OK" if not tally["bad"] else "WRITER-INVALID", f"libarchive ({BSDTAR}) lists and extracts the valid archives identically",
             f"{tally['ok']} archives agree, {tally['bad']} differ, {tally['skipped']} skipped (known libarchive limits: partial attributes, no SubStreamsInfo, explicit empty header)")


def main():
    tk = Tokens(0)
    check_primitives()
    sets, valid = check_roundtrips(tk)
    check_fixture()
    check_forged(tk)
    check_library(tk, sets, valid)
    print()
    print("SUMMARY selftest_sevenz: " + "  ".join(f"{k}={v}" for k, v in COUNTS.items()))
    if DISAGREE:
        print(f"EXTRACTOR-DISAGREES cases ({len(DISAGREE)}), archives were accepted by the independent reader:")
        for n, d in DISAGREE:
            print(f"  - {n}: {d[:260]}")
    if COUNTS["WRITER-INVALID"]:
        print("WRITER-INVALID present: the writer (or this self-test) has a bug")
    return 0


if __name__ == "__main__":
    sys.exit(main())
