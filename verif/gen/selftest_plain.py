"""Self-test of verif.gen.plain:  PYTHONPATH=/verif /venv/bin/python -B -m verif.gen.selftest_plain

For the simplest terms of every supported constructor: render, read the bytes back with an INDEPENDENT reader
(codecs + str.splitlines / csv.reader / json.loads / a small CommonMark-subset reader written here) and compare with
the ground truth -> a mismatch is WRITER-INVALID. Then run the library's read_plain_text and compare with the decoded
file content and the ground truth -> a mismatch is EXTRACTOR-DISAGREES.
"""
from __future__ import annotations

import csv as csvmod
import io
import json
import re
import sys

from verif.gen import adm, plain
from verif.gen.tokens import Tokens, find_tokens

RESULTS = {"OK": 0, "WRITER-INVALID": 0, "EXTRACTOR-DISAGREES": 0}


def report(kind, name, detail=""):
    RESULTS[kind] += 1
    print("%-19s %s%s" % (kind, name, (": " + detail) if detail else ""))


def judge(text, tr, sep=r"\s"):
    """Compare a text with the ground truth: token order, hidden tokens, separation of neighbours.
    A visible ADM string may hold extra text around/between tokens; only its tokens are compared.
    `sep` = what counts as a separator between two neighbours (white space; for CSV also the delimiter)."""
    probs = []
    dc = set(tr["dontcare"])
    spans = [(m.group(0), m.start(), m.end()) for m in re.finditer(r"[A-Z][bcdfghjklmnpqrstvwxz]{5}", text or "")]
    spans = [s for s in spans if s[0] not in dc]
    vis = []
    for s_, b in tr["visible"]:
        for j, tk in enumerate(find_tokens(s_)):
            vis.append((tk, b if j == 0 else "any"))
    if [s[0] for s in spans] != [v[0] for v in vis]:
        probs.append("tokens %s expected %s" % ([s[0] for s in spans], [v[0] for v in vis]))
        return probs
    for h in tr["hidden"]:
        for tk in find_tokens(h):
            if tk in text:
                probs.append("hidden token %s present" % tk)
    for i in range(1, len(spans)):
        b = vis[i][1]
        between = text[spans[i - 1][2]:spans[i][1]]
        if b not in ("none", "any") and not re.search(sep, between):
            probs.append("%s|%s not separated (boundary %s)" % (spans[i - 1][0], spans[i][0], b))
    return probs


def decode(data, enc):
    if enc == "utf-16":
        assert data[:2] == b"\xff\xfe" or not data, "utf-16 output must start with the LE BOM"
    if enc == "utf-8-sig":
        assert data[:3] == b"\xef\xbb\xbf" or not data, "utf-8-sig output must start with the BOM"
    return data.decode(enc)


# ----------------------------------------------------------------------------------------------------------------------
# a small independent CommonMark-subset reader: -> list of units, unit = list of (kind, level, text)
# ----------------------------------------------------------------------------------------------------------------------

def md_read(text):
    units = [[]]
    para = None                        # [kind, level, [source lines]]

    def unescape(s):
        s = re.sub(r"\[((?:\\.|[^\]\\])*)\]\(([^)\s]*)\)", r"\1", s)      # inline links -> their text
        return re.sub(r"\\([!-/:-@\[-`{-~])", r"\1", s)                   # backslash escapes of ASCII punctuation

    def flush():
        nonlocal para
        if para is None:
            return
        kind, level, ls = para
        parts = []
        for k, ln in enumerate(ls):
            last = k == len(ls) - 1
            hard_sp = ln.endswith("  ")
            hard_bs = re.search(r"(?<!\\)(?:\\\\)*\\$", ln) is not None
            body = ln[:-1] if hard_bs else ln.rstrip(" ")
            parts.append(body)
            if not last:
                parts.append("\n" if (hard_sp or hard_bs) else " ")
        units[-1].append((kind, level, unescape("".join(parts))))
        para = None

    for ln in text.split("\n"):
        if not ln.strip():
            flush()
            continue
        stripped = ln.lstrip(" ")
        ind = len(ln) - len(stripped)
        m = re.match(r"-(?: (.*))?$", stripped)
        if m and ind % 2 == 0:                                   # a list item (may interrupt a paragraph)
            flush()
            rest = m.group(1) or ""
            hm = re.match(r"(#{1,6})(?: +(.*))?$", rest)
            if hm:
                units[-1].append(("li-h", ind // 2, unescape(hm.group(2) or "")))
            else:
                para = ["li", ind // 2, [rest]]
            continue
        if para is not None:                                     # continuation line of the open paragraph
            para[2].append(stripped)
            continue
        if ind == 0 and re.fullmatch(r"(-{3,}|\*{3,}|_{3,}) *", ln):
            units.append([])                                     # thematic break = unit separator of the writer
            continue
        hm = re.match(r"(#{1,6})(?: +(.*))?$", stripped)
        if hm and ind >= 2 and ind % 2 == 0:                      # heading as a further block of a list item
            units[-1].append(("li-cont", ind // 2 - 1, unescape((hm.group(2) or "").strip())))
            continue
        if hm and ind < 2:
            units[-1].append(("h", len(hm.group(1)), unescape((hm.group(2) or "").strip())))
            continue
        if ind >= 4 and ind % 2:
            raise AssertionError("unexpected indentation %r" % ln)
        if ind >= 2:
            para = ["li-cont", ind // 2 - 1, [stripped]]
        else:
            para = ["p", 0, [stripped]]
    flush()
    return units


def md_expect(doc):
    """The same structure computed from the ADM (what md_read must return)."""
    def line(inls):
        out, prev = [], False
        for x in inls:
            if x[0] == "t":
                out.append((" " if prev else "") + x[1])
                prev = True
            elif x[0] == "tab":
                out.append("\t")
                prev = False
            elif x[0] == "br":
                out.append("\n")
                prev = False
            elif x[0] == "a":
                out.append((" " if prev else "") + line(x[2]))
                prev = True
        return "".join(out)

    def lst(items, level, out):
        for item in items:
            if not item:
                out.append(("li", level, ""))
            for k, b in enumerate(item):
                if b[0] == "ul":
                    lst(b[1], level + 1, out)
                elif k == 0:
                    out.append(("li-h" if b[0] == "h" else "li", level, line(b[-1])))
                else:
                    out.append(("li-cont", level, line(b[-1])))
    units = []
    for u in doc[2]:
        out = []
        for b in u[1]:
            if b[0] == "p":
                out.append(("p", 0, line(b[1])))
            elif b[0] == "h":
                out.append(("h", b[1], line(b[2])))
            elif b[0] == "ul":
                lst(b[1], 0, out)
        units.append(out)
    return units or [[]]


# ----------------------------------------------------------------------------------------------------------------------

def extractor_text(data, path):
    from sharepoint2text.parsing.extractors.plain_extractor import read_plain_text
    res = list(read_plain_text(io.BytesIO(data), path=path))
    assert len(res) == 1
    c = res[0]
    units = list(c.iterate_units())
    return c.get_full_text(), [u.get_text() for u in units], c.get_metadata().detected_encoding


def run_case(name, fn, ext, doc, opts, validate, tr=None, sep=r"\s"):
    enc = (opts or {}).get("encoding", "utf-8")
    label = "%s[%s,%s]" % (name, enc, "CRLF" if (opts or {}).get("newline") == "\r\n" else "LF")
    try:
        data = fn(doc, opts)
        assert fn(doc, opts) == data, "not deterministic"
        text = decode(data, enc)
        nl = (opts or {}).get("newline", "\n")
        if nl == "\r\n":
            assert "\n" not in text.replace("\r\n", ""), "bare LF in CRLF file"
            assert "\r" not in text.replace("\r\n", ""), "bare CR in CRLF file"
        else:
            assert "\r" not in text, "CR in LF file"
        norm = text.replace("\r\n", "\n")
        validate(norm)
        if tr is not None:
            probs = judge(norm, tr, sep)
            assert not probs, "; ".join(probs)
    except AssertionError as e:
        report("WRITER-INVALID", label, str(e))
        return
    except Exception as e:                                     # noqa: BLE001
        report("WRITER-INVALID", label, "%s: %s" % (type(e).__name__, e))
        return
    try:
        full, units, detected = extractor_text(data, "x." + ext)
    except Exception as e:                                     # noqa: BLE001
        report("EXTRACTOR-DISAGREES", label, "raised %s: %s" % (type(e).__name__, e))
        return
    probs = []
    if full != text.strip():
        probs.append("full text %r != file content %r (detected %s)" % (full[:60], text.strip()[:60], detected))
    if units != [full]:
        probs.append("units %r" % (units,))
    if tr is not None:
        probs += judge(full, tr, sep)
    if probs:
        report("EXTRACTOR-DISAGREES", label, "; ".join(probs))
    else:
        report("OK", label)


def expect_raises(name, fn, doc, opts=None):
    try:
        fn(doc, opts)
    except NotImplementedError:
        report("OK", name + " -> NotImplementedError")
    except Exception as e:                                     # noqa: BLE001
        report("WRITER-INVALID", name, "raised %s instead of NotImplementedError" % type(e).__name__)
    else:
        report("WRITER-INVALID", name, "inexpressible construct was accepted")


def main():
    T = Tokens(0)
    t = T.new

    def D(*units, meta=None):
        return ["doc", meta or {}, [["unit", list(bs), {}] for bs in units]]

    def P(*xs):
        return ["p", [["t", x] if isinstance(x, str) else x for x in xs]]

    encs = [("utf-8", "\n"), ("ascii", "\n"), ("utf-8-sig", "\n"), ("utf-16", "\n"), ("utf-8", "\r\n"), ("utf-16", "\r\n")]

    # ---- txt ----------------------------------------------------------------------------------------------------------
    txt_terms = {
        "empty-doc": ["doc", {}, []],
        "empty-unit": D([]),
        "p": D([P(t("B"))]),
        "p-empty": D([["p", []]]),
        "p-2tokens": D([P(t("B"), t("B"))]),
        "p+p": D([P(t("B")), P(t("B"))]),
        "h1": D([["h", 1, [["t", t("H")]]]]),
        "h3+p": D([["h", 3, [["t", t("H")]]], P(t("B"))]),
        "tab": D([P(t("B"), ["tab"], t("B"))]),
        "br": D([P(t("B"), ["br"], t("B"))]),
        "multiunit": D([P(t("B"))], [P(t("B"))]),
        "multiunit-empty-middle": D([P(t("B"))], [], [P(t("B"))]),
    }
    for name, doc in txt_terms.items():
        tr = adm.truth(doc)
        assert adm.constructors(doc) <= plain.CAPS_TXT, (name, adm.constructors(doc) - plain.CAPS_TXT)
        for enc, nl in (encs if name in ("p", "p+p", "br", "multiunit") else encs[:1]):
            def validate(norm, doc=doc):
                exp = []
                for i, u in enumerate(doc[2]):
                    if i:
                        exp.append("")
                    for b in u[1]:
                        exp.extend(md_expect(["doc", {}, [["unit", [b], {}]]])[0][0][2].split("\n"))
                got = norm.split("\n") if norm else []
                if exp:
                    assert got[-1] == "", "last line not terminated"
                    got = got[:-1]
                assert got == exp, "lines %r expected %r" % (got, exp)
            run_case("txt:" + name, plain.txt, "txt", doc, {"encoding": enc, "newline": nl}, validate, tr)
    nonascii = D([P("B\u00e9\u4e2d " + t("B"))])
    run_case("txt:non-ascii", plain.txt, "txt", nonascii, {"encoding": "utf-8"}, lambda s: None, adm.truth(nonascii))
    run_case("txt:non-ascii", plain.txt, "txt", nonascii, {"encoding": "utf-8-sig"}, lambda s: None, adm.truth(nonascii))
    run_case("txt:non-ascii", plain.txt, "txt", nonascii, {"encoding": "utf-16"}, lambda s: None, adm.truth(nonascii))
    run_case("txt:no-final-newline", plain.txt, "txt", txt_terms["p+p"], {"final_newline": False},
             lambda s: (_ for _ in ()).throw(AssertionError("terminated")) if s.endswith("\n") else None,
             adm.truth(txt_terms["p+p"]))
    expect_raises("txt:non-ascii[ascii]", plain.txt, nonascii, {"encoding": "ascii"})
    expect_raises("txt:meta", plain.txt, D([P("Bx")], meta={"title": "T"}))
    expect_raises("txt:ul", plain.txt, D([["ul", [[P("Lx")]]]]))
    expect_raises("txt:tbl", plain.txt, D([["tbl", [[[P("Cx")]]]]]))
    expect_raises("txt:img", plain.txt, D([["img", "k"]]))
    expect_raises("txt:ins", plain.txt, D([P(["ins", "Ix"])]))
    expect_raises("txt:notes", plain.txt, ["doc", {}, [["unit", [], {"notes": ["Px"]}]]])

    # ---- csv ----------------------------------------------------------------------------------------------------------
    def C(*toks):
        return [P(*toks)]
    csv_terms = {
        "tbl-1x1": D([["tbl", [[C(t("C"))]]]]),
        "tbl-2x2": D([["tbl", [[C(t("C")), C(t("C"))], [C(t("C")), C(t("C"))]]]]),
        "tbl-empty-cell": D([["tbl", [[[], C(t("C"))], [C(t("C")), []]]]]),
        "tbl-lone-empty-cell": D([["tbl", [[[]], [C(t("C"))]]]]),
        "tbl-2para-cell": D([["tbl", [[[P(t("C")), P(t("C"))], C(t("C"))]]]]),
        "tbl-tab-br": D([["tbl", [[C(t("C"), ["tab"], t("C")), C(t("C"), ["br"], t("C"))]]]]),
        "tbl-ragged": D([["tbl", [[C(t("C"))], [C(t("C")), C(t("C"))]]]]),
        "tbl-quoting": D([["tbl", [[C("C,a " + t("C")), C('C"b" ' + t("C")), C(" " + t("C") + " ")]]]]),
    }

    def cell_text(cell):
        return "\n".join(md_expect(["doc", {}, [["unit", [b], {}]]])[0][0][2] for b in cell)
    for name, doc in csv_terms.items():
        tr = adm.truth(doc)
        assert adm.constructors(doc) <= plain.CAPS_CSV, name
        exp = [[cell_text(c) for c in row] for row in doc[2][0][1][0][1]]
        for enc, nl in (encs if name in ("tbl-2x2", "tbl-tab-br") else encs[:1]):
            for delim in (",", "\t") if name in ("tbl-2x2", "tbl-quoting") else (",",):
                def validate(norm, exp=exp, delim=delim):
                    got = list(csvmod.reader(io.StringIO(norm, newline=""), delimiter=delim))
                    assert got == exp, "csv.reader %r expected %r" % (got, exp)
                run_case("csv:%s%s" % (name, "[tsv]" if delim == "\t" else ""), plain.csv, "csv", doc,
                         {"encoding": enc, "newline": nl, "delimiter": delim}, validate, tr, sep=r"[\s,]")
    sheet = ["doc", {}, [["sheet", t("N"), [
        [["s", t("C")], ["i", 5], ["f", 1.5], ["b", True], None, ["b", False]],
        [["d", "2020-01-02"], ["dt", "2020-01-02T03:04:05"], ["tm", "03:04:05"], ["dur", 3725], ["err", "#DIV/0!"],
         ["fml", "A1+1", ["i", 6]]]]]]]
    assert adm.constructors(sheet) <= plain.CAPS_CSV

    def validate_sheet(norm):
        got = list(csvmod.reader(io.StringIO(norm, newline="")))
        exp = [[sheet[2][0][2][0][0][1], "5", "1.5", "TRUE", "", "FALSE"],
               ["2020-01-02", "2020-01-02T03:04:05", "03:04:05", "1:02:05", "#DIV/0!", "6"]]
        assert got == exp, "csv.reader %r expected %r" % (got, exp)
        assert sheet[2][0][1] not in norm, "sheet name must not be written"
    run_case("csv:sheet", plain.csv, "csv", sheet, None, validate_sheet)
    run_case("csv:sheet-formulas", plain.csv, "csv", sheet, {"formulas": True},
             lambda s: None if "=A1+1" in s else (_ for _ in ()).throw(AssertionError("formula text missing")))
    expect_raises("csv:two-tables", plain.csv, D([["tbl", [[C("Cx")]]], ["tbl", [[C("Cy")]]]]))
    expect_raises("csv:multiunit", plain.csv, D([["tbl", [[C("Cx")]]]], [["tbl", [[C("Cy")]]]]))
    expect_raises("csv:paragraph", plain.csv, D([P("Bx")]))
    expect_raises("csv:nested-table", plain.csv, D([["tbl", [[[["tbl", [[C("Cx")]]]]]]]]))

    # ---- md -----------------------------------------------------------------------------------------------------------
    md_terms = {
        "empty-unit": D([]),
        "p": D([P(t("B"))]),
        "p-2tokens": D([P(t("B"), t("B"))]),
        "p+p": D([P(t("B")), P(t("B"))]),
        "h1": D([["h", 1, [["t", t("H")]]]]),
        "h2+p": D([["h", 2, [["t", t("H")]]], P(t("B"))]),
        "h3": D([["h", 3, [["t", t("H")]]]]),
        "tab": D([P(t("B"), ["tab"], t("B"))]),
        "br": D([P(t("B"), ["br"], t("B"))]),
        "a": D([P(t("B"), ["a", "http://h/x", [["t", t("K")]]], t("B"))]),
        "ul-1": D([["ul", [[P(t("L"))]]]]),
        "ul-2": D([["ul", [[P(t("L"))], [P(t("L"))]]]]),
        "ul-2para-item": D([["ul", [[P(t("L")), P(t("L"))], [P(t("L"))]]]]),
        "ul-nested": D([["ul", [[P(t("L")), ["ul", [[P(t("L"))], [P(t("L"))]]]], [P(t("L"))]]]]),
        "ul-empty-item": D([["ul", [[], [P(t("L"))]]]]),
        "p+ul+p": D([P(t("B")), ["ul", [[P(t("L"))]]], P(t("B"))]),
        "multiunit": D([P(t("B"))], [P(t("B"))]),
        "escapes": D([P("B*a_b[c]#d " + t("B")), P("- " + t("B")), P("1. " + t("B")), ["h", 1, [["t", "#H " + t("H")]]]]),
    }
    for name, doc in md_terms.items():
        tr = adm.truth(doc)
        assert adm.constructors(doc) <= plain.CAPS_MD, (name, adm.constructors(doc) - plain.CAPS_MD)
        for enc, nl in (encs if name in ("p+p", "br", "ul-nested") else encs[:1]):
            for br in ("spaces", "backslash") if name == "br" else ("spaces",):
                def validate(norm, doc=doc):
                    got, exp = md_read(norm), md_expect(doc)
                    assert got == exp, "markdown reads back as %r expected %r" % (got, exp)
                run_case("md:%s%s" % (name, "[backslash]" if br == "backslash" else ""), plain.md, "md", doc,
                         {"encoding": enc, "newline": nl, "md_br": br}, validate, tr if name != "a" else None)
    expect_raises("md:empty-paragraph", plain.md, D([["p", []]]))
    expect_raises("md:leading-tab", plain.md, D([P(["tab"], "Bx")]))
    expect_raises("md:br-in-heading", plain.md, D([["h", 1, [["t", "Hx"], ["br"], ["t", "Hy"]]]]))
    expect_raises("md:tbl", plain.md, D([["tbl", [[[P("Cx")]]]]]))
    expect_raises("md:img", plain.md, D([["img", "k"]]))
    expect_raises("md:fn", plain.md, D([P(["fn", "Zx"])]))

    # ---- json ---------------------------------------------------------------------------------------------------------
    json_terms = {
        "empty-doc": ["doc", {}, []],
        "empty-unit": D([]),
        "p": D([P(t("B"))]),
        "p-2tokens": D([P(t("B"), t("B"))]),
        "p+h+p": D([P(t("B")), ["h", 2, [["t", t("H")]]], P(t("B"))]),
        "p-empty": D([["p", []], P(t("B"))]),
        "quotes": D([P('B"q\\ ' + t("B"))]),
    }
    for name, doc in json_terms.items():
        tr = adm.truth(doc)
        assert adm.constructors(doc) <= plain.CAPS_JSON, name
        exp = [x[2] for u in md_expect(doc) for x in u]
        for enc, nl in (encs if name == "p+h+p" else encs[:1]):
            for indent in (None, 2) if name == "p+h+p" else (None,):
                def validate(norm, exp=exp):
                    got = json.loads(norm)
                    assert got == exp, "json.loads %r expected %r" % (got, exp)
                run_case("json:%s%s" % (name, "[indent]" if indent else ""), plain.json_, "json", doc,
                         {"encoding": enc, "newline": nl, "indent": indent}, validate, tr)
    na = D([P("B\u00e9 " + t("B"))])
    run_case("json:non-ascii-escaped", plain.json_, "json", na, {"encoding": "ascii"},
             lambda s: None if json.loads(s) == [na[2][0][1][0][1][0][1]] and "\\u00e9" in s
             else (_ for _ in ()).throw(AssertionError("bad escape")), adm.truth(na))
    run_case("json:non-ascii-raw", plain.json_, "json", na, {"encoding": "utf-8"},
             lambda s: None if json.loads(s) == [na[2][0][1][0][1][0][1]] and "\u00e9" in s
             else (_ for _ in ()).throw(AssertionError("bad raw")), adm.truth(na))
    expect_raises("json:tab", plain.json_, D([P("Bx", ["tab"], "By")]))
    expect_raises("json:br", plain.json_, D([P("Bx", ["br"], "By")]))
    expect_raises("json:multiunit", plain.json_, D([P("Bx")], [P("By")]))
    expect_raises("json:ul", plain.json_, D([["ul", [[P("Lx")]]]]))

    # ---- speed --------------------------------------------------------------------------------------------------------
    import time
    doc = md_terms["ul-nested"]
    t0 = time.perf_counter()
    for _ in range(500):
        plain.md(doc)
        plain.txt(txt_terms["p+p"])
    dt = (time.perf_counter() - t0) / 1000 * 1e3
    report("OK" if dt < 1.0 else "WRITER-INVALID", "speed", "%.3f ms per document" % dt)

    print("SUMMARY plain: %d OK, %d WRITER-INVALID, %d EXTRACTOR-DISAGREES"
          % (RESULTS["OK"], RESULTS["WRITER-INVALID"], RESULTS["EXTRACTOR-DISAGREES"]))
    return 1 if RESULTS["WRITER-INVALID"] else 0


if __name__ == "__main__":
    sys.exit(main())
