"""Self-test of verif.gen.biff8.   PYTHONPATH=/verif /venv/bin/python -B -m verif.gen.selftest_biff8

Independent readers: the strict CFB reader + olefile (container), a from-scratch BIFF record walker (record framing,
BOUNDSHEET / EXTSST offsets, SST continuation), xlrd (sheet names, cell types and values, dates) and xlrd's formula
decompiler (parsed expressions).  WRITER-INVALID = one of them disagrees with the input; EXTRACTOR-DISAGREES = the file is
fine for all of them but sharepoint2text's read_xls returns something else than the ground truth.
"""
from __future__ import annotations

import datetime
import io
import struct
import sys

import olefile
import xlrd
import xlrd.formula

from verif.gen import biff8 as B
from verif.gen.selftest_cfb import strict_read
from verif.gen.tokens import Tokens, find_tokens

from sharepoint2text.parsing.exceptions import ExtractionFileEncryptedError
from sharepoint2text.parsing.extractors.ms_legacy.xls_extractor import read_xls

RESULTS = {"ok": 0, "WRITER-INVALID": 0, "EXTRACTOR-DISAGREES": 0, "info": 0}


def report(kind, name, detail=""):
    RESULTS[kind] += 1
    print("%-20s %s%s" % (kind, name, (" :: " + detail) if detail else ""))


def records(stream: bytes, lenient: bool = False):
    off = 0
    out = []
    while off < len(stream):
        if lenient and stream[off:] == b"\0" * (len(stream) - off):
            break                      # sector padding after the last substream (seen in xlwt files)
        if off + 4 > len(stream):
            raise ValueError("truncated record header at %d" % off)
        t, n = struct.unpack_from("<HH", stream, off)
        if n > 8224 or off + 4 + n > len(stream):
            raise ValueError("record 0x%04x at %d has bad length %d" % (t, off, n))
        out.append((off, t, stream[off + 4:off + 4 + n]))
        off += 4 + n
    return out


def read_ustr(b: bytes, pos: int, lenbytes: int = 2):
    cch = struct.unpack_from("<H" if lenbytes == 2 else "<B", b, pos)[0]
    flags = b[pos + lenbytes]
    pos += lenbytes + 1
    if flags & 1:
        return b[pos:pos + 2 * cch].decode("utf-16-le"), pos + 2 * cch
    return b[pos:pos + cch].decode("latin-1"), pos + cch


def parse_sst(recs, idx):
    """independent SST reader ([MS-XLS] 2.4.265 / 2.5.293): strings continued over CONTINUE records (option byte repeated after
    a split inside the characters), rich-text runs and phonetic blocks -> (total, strings, [(abs offset, offset in record)])"""
    payloads = [(recs[idx][0], recs[idx][2])]
    j = idx + 1
    while j < len(recs) and recs[j][1] == 0x003C:
        payloads.append((recs[j][0], recs[j][2]))
        j += 1
    total, uniq = struct.unpack_from("<II", payloads[0][1], 0)
    st = {"k": 0, "pos": 8}

    def skip(n):                       # formatting runs / phonetic data may continue without an option byte
        while n:
            p = payloads[st["k"]][1]
            step = min(n, len(p) - st["pos"])
            st["pos"] += step
            n -= step
            if n:
                st["k"], st["pos"] = st["k"] + 1, 0
    strings, where = [], []
    for _ in range(uniq):
        if st["pos"] >= len(payloads[st["k"]][1]):
            st["k"], st["pos"] = st["k"] + 1, 0
        base, p = payloads[st["k"]]
        pos = st["pos"]
        where.append((base + 4 + pos, 4 + pos))
        cch, flags = struct.unpack_from("<HB", p, pos)
        pos += 3
        runs = ext = 0
        if flags & 8:
            runs = struct.unpack_from("<H", p, pos)[0]
            pos += 2
        if flags & 4:
            ext = struct.unpack_from("<I", p, pos)[0]
            pos += 4
        wide = flags & 1
        chars = ""
        k = st["k"]
        while cch:
            base, p = payloads[k]
            room = (len(p) - pos) // (2 if wide else 1)
            n = min(room, cch)
            raw = p[pos:pos + n * (2 if wide else 1)]
            chars += raw.decode("utf-16-le" if wide else "latin-1", "surrogatepass")
            pos += len(raw)
            cch -= n
            if cch:
                if pos != len(p):
                    raise ValueError("string split in mid-character")
                k, pos = k + 1, 1
                wide = payloads[k][1][0] & 1
        st["k"], st["pos"] = k, pos
        skip(4 * runs + ext)
        strings.append(chars.encode("utf-16-le", "surrogatepass").decode("utf-16-le"))
    if st["k"] != len(payloads) - 1 or st["pos"] != len(payloads[st["k"]][1]):
        raise ValueError("SST has trailing bytes")
    return total, strings, where


def expected_native(cell, datemode=0):
    """what a faithful reader should hand back for an ADM cell (python value)"""
    if cell is None:
        return None
    k = cell[0]
    if k == "fml":
        return expected_native(cell[2])
    if k in ("s", "i", "f", "b"):
        return cell[1]
    if k == "d":
        return datetime.date.fromisoformat(cell[1])
    if k == "dt":
        return datetime.datetime.fromisoformat(cell[1])
    if k == "tm":
        return datetime.time.fromisoformat(cell[1])
    if k == "dur":
        return datetime.timedelta(seconds=cell[1])
    if k == "err":
        return cell[1]
    raise KeyError(k)


def check_writer(name: str, doc, data: bytes, opts=None) -> bool:
    """everything an independent reader can say about `data` versus `doc`"""
    opts = opts or {}
    datemode = opts.get("datemode", 0)
    problems = []
    streams, prob = strict_read(data)
    problems += ["cfb: " + p for p in prob]
    try:
        with olefile.OleFileIO(io.BytesIO(data), raise_defects=olefile.DEFECT_UNSURE) as ole:
            if not ole.exists(opts.get("stream_name", "Workbook")):
                problems.append("olefile: no workbook stream")
            if ole.root.clsid != "00020820-0000-0000-C000-000000000046":
                problems.append("root CLSID")
    except Exception as e:
        problems.append("olefile: %s" % e)
    wb = streams.get(opts.get("stream_name", "Workbook"), b"")
    sheets = doc[2]
    try:
        recs = records(wb)
        # substreams: BOF ... EOF, nothing outside
        depth, starts = 0, []
        for off, t, p in recs:
            if t == 0x0809:
                if depth:
                    problems.append("nested BOF")
                depth = 1
                starts.append((off, struct.unpack_from("<HH", p)))
            elif t == 0x000A:
                depth = 0
            elif not depth and t != 0x002F:
                problems.append("record 0x%04x outside a substream" % t)
        if depth:
            problems.append("missing EOF")
        if [s[1] for s in starts] != [(0x0600, 5)] + [(0x0600, 0x10)] * len(sheets):
            problems.append("substream kinds %r" % (starts,))
        bs = [(struct.unpack_from("<I", p)[0], read_ustr(p, 6, 1)[0]) for _, t, p in recs if t == 0x0085]
        if [b[1] for b in bs] != [s[1] for s in sheets]:
            problems.append("BOUNDSHEET names")
        if [b[0] for b in bs] != [s[0] for s in starts[1:]]:
            problems.append("BOUNDSHEET offsets do not point at the sheet BOFs")
        si = [i for i, r in enumerate(recs) if r[1] == 0x00FC]
        if len(si) != 1:
            problems.append("SST count")
        else:
            total, strings, where = parse_sst(recs, si[0])
            want = []
            nref = 0
            for sh in sheets:
                for row in sh[2]:
                    for c in row:
                        if c and c[0] == "s":
                            nref += 1
                            if c[1] not in want:
                                want.append(c[1])
            if strings != want or total != nref:
                problems.append("SST content (%d/%d strings, total %d/%d)" % (len(strings), len(want), total, nref))
            ext = [p for _, t, p in recs if t == 0x00FF]
            if len(ext) != 1:
                problems.append("EXTSST count")
            else:
                dsst = struct.unpack_from("<H", ext[0])[0]
                ents = [struct.unpack_from("<IHH", ext[0], 2 + 8 * i) for i in range((len(ext[0]) - 2) // 8)]
                if dsst < 8 or len(ents) != -(-len(strings) // dsst):
                    problems.append("EXTSST bucket count")
                for i, (ib, cb, _) in enumerate(ents):
                    if (ib, cb) != where[i * dsst]:
                        problems.append("EXTSST bucket %d points to %r, string starts at %r" % (i, (ib, cb), where[i * dsst]))
                        break
        # formulas: decompile the parsed expressions with xlrd
        want_f = [(r, c, cell[1]) for sh in sheets for r, row in enumerate(sh[2]) for c, cell in enumerate(row) if cell and cell[0] == "fml"]
        got_f = []
        bk0 = xlrd.open_workbook(file_contents=data, logfile=io.StringIO()) if "filepass_at" not in opts else None
        for _, t, p in recs:
            if t == 0x0006 and bk0 is not None:
                r, c, xf = struct.unpack_from("<HHH", p)
                cce = struct.unpack_from("<H", p, 20)[0]
                if 22 + cce != len(p):
                    problems.append("FORMULA record length")
                txt = xlrd.formula.decompile_formula(bk0, p[22:], cce, xlrd.formula.FMLA_TYPE_CELL, browx=r, bcolx=c, blah=0)
                got_f.append((r, c, txt))
        if bk0 is not None:
            def norm(s):
                import re
                s = (s[1:] if s.startswith("=") else s).replace(" ", "").upper()
                parts = re.split(r'("(?:[^"]|"")*")', s)          # leave string constants alone
                for i in range(0, len(parts), 2):                 # numbers print as floats in xlrd: compare values
                    parts[i] = re.sub(r"(?<![A-Z$\d.])\d+(?:\.\d+)?(?:E[+-]?\d+)?(?![\d.]*[A-Z$(])", lambda m: repr(float(m.group(0))), parts[i])
                return "".join(parts)
            if [(r, c, norm(t)) for r, c, t in got_f] != [(r, c, norm(t)) for r, c, t in want_f]:
                problems.append("formula round trip: %r vs %r" % (got_f, want_f))
    except Exception as e:
        problems.append("record walk: %s: %s" % (type(e).__name__, e))
    # xlrd: names, types, values
    if "filepass_at" in opts:
        try:
            xlrd.open_workbook(file_contents=data, logfile=io.StringIO())
            if not opts.get("_after_eof"):
                problems.append("xlrd does not see the FILEPASS record")
        except xlrd.XLRDError as e:
            if "encrypt" not in str(e).lower() and opts["filepass_at"] != 0:      # at index 0 it precedes BOF: "Expected BOF record"
                problems.append("xlrd: %s" % e)
        except Exception as e:
            if opts["filepass_at"] != 0:
                problems.append("xlrd: %s: %s" % (type(e).__name__, e))
    else:
        try:
            log = io.StringIO()
            bk = xlrd.open_workbook(file_contents=data, logfile=log, formatting_info=True)
            if log.getvalue().strip():
                problems.append("xlrd log: " + log.getvalue().strip()[:200])
            if bk.sheet_names() != [s[1] for s in sheets]:
                problems.append("xlrd sheet names %r" % bk.sheet_names())
            if bk.datemode != datemode:
                problems.append("xlrd datemode")
            for sh, xs in zip(sheets, bk.sheets()):
                grid = sh[2]
                used_rows = [r for r, row in enumerate(grid) if any(c is not None for c in row)]
                nrows = used_rows[-1] + 1 if used_rows else 0
                ncols = max([c + 1 for row in grid for c, cell in enumerate(row) if cell is not None], default=0)
                if (xs.nrows, xs.ncols) != (nrows, ncols):
                    problems.append("xlrd dimensions of %s: %r, expected %r" % (sh[1], (xs.nrows, xs.ncols), (nrows, ncols)))
                    continue
                for r in range(nrows):
                    for c in range(ncols):
                        cell = grid[r][c] if r < len(grid) and c < len(grid[r]) else None
                        x = xs.cell(r, c)
                        want = expected_native(cell, datemode)
                        if want is None:
                            ok = x.ctype in (xlrd.XL_CELL_EMPTY, xlrd.XL_CELL_BLANK)
                        elif isinstance(want, bool):
                            ok = x.ctype == xlrd.XL_CELL_BOOLEAN and bool(x.value) == want
                        elif isinstance(want, str) and want in B.ERROR_CODES and (cell[0] == "err" or (cell[0] == "fml" and cell[2][0] == "err")):
                            ok = x.ctype == xlrd.XL_CELL_ERROR and xlrd.error_text_from_code[x.value] == want
                        elif isinstance(want, str):
                            ok = x.ctype == xlrd.XL_CELL_TEXT and x.value == want
                        elif isinstance(want, (int, float)):
                            ok = x.ctype == xlrd.XL_CELL_NUMBER and x.value == float(want)
                        elif isinstance(want, datetime.datetime):
                            ok = x.ctype == xlrd.XL_CELL_DATE and abs(xlrd.xldate_as_datetime(x.value, bk.datemode) - want) < datetime.timedelta(milliseconds=1)
                        elif isinstance(want, datetime.date):
                            ok = x.ctype == xlrd.XL_CELL_DATE and xlrd.xldate_as_datetime(x.value, bk.datemode) == datetime.datetime.combine(want, datetime.time())
                        elif isinstance(want, datetime.time):
                            ok = x.ctype == xlrd.XL_CELL_DATE and xlrd.xldate_as_tuple(x.value, bk.datemode) == (0, 0, 0, want.hour, want.minute, want.second)
                        elif isinstance(want, datetime.timedelta):
                            ok = x.ctype == xlrd.XL_CELL_DATE and abs(x.value * 86400 - want.total_seconds()) < 1e-3
                        else:
                            ok = False
                        if not ok:
                            problems.append("xlrd cell %s!R%dC%d = (%r, %r), expected %r" % (sh[1], r, c, x.ctype, x.value, want))
        except Exception as e:
            problems.append("xlrd: %s: %s" % (type(e).__name__, e))
    if problems:
        report("WRITER-INVALID", name, "; ".join(problems[:4]))
        return False
    return True


def extractor_view(data: bytes):
    r = next(read_xls(io.BytesIO(data), None))
    return r


def values_equal(got, want):
    """tolerant comparison of an extractor cell with the expected python value (instants, not strings)"""
    if want is None:
        return got is None
    if isinstance(want, bool) or isinstance(got, bool):
        return got is want
    if isinstance(want, (int, float)):
        return isinstance(got, (int, float)) and got == want
    if isinstance(want, str):
        return got == want
    try:
        if isinstance(want, datetime.datetime):
            return datetime.datetime.fromisoformat(str(got)) == want
        if isinstance(want, datetime.date):
            g = datetime.datetime.fromisoformat(str(got))
            return g == datetime.datetime.combine(want, datetime.time())
        if isinstance(want, datetime.time):
            return datetime.time.fromisoformat(str(got)) == want
        if isinstance(want, datetime.timedelta):
            return got == want or (isinstance(got, (int, float)) and abs(got * 86400 - want.total_seconds()) < 1e-3)
    except ValueError:
        return False
    return False


def check_extractor(name: str, doc, data: bytes):
    """simplest-term identity: tokens in row-major order, sheet names, tables with native values"""
    sheets = doc[2]
    try:
        r = extractor_view(data)
    except Exception as e:
        report("EXTRACTOR-DISAGREES", name, "read_xls raised %s: %s (cause %r)" % (type(e).__name__, e, e.__cause__))
        return
    issues = []
    want_tokens = [t for sh in sheets for row in sh[2] for c in row if c and c[0] in ("s", "fml")
                   for t in find_tokens(c[1] if c[0] == "s" else (c[2][1] if c[2][0] == "s" else ""))]
    got_tokens = find_tokens(r.get_full_text())
    if got_tokens != want_tokens:
        issues.append("full text tokens %r, expected %r" % (got_tokens, want_tokens))
    units = list(r.iterate_units())
    if [u.get_metadata().sheet_name for u in units] != [s[1] for s in sheets] or [u.get_metadata().unit_number for u in units] != list(range(1, len(sheets) + 1)):
        issues.append("units %r" % [(u.get_metadata().unit_number, u.get_metadata().sheet_name) for u in units])
    tables = list(r.iterate_tables())
    if len(tables) != len(sheets):
        issues.append("%d tables for %d sheets" % (len(tables), len(sheets)))
    for sh, t in zip(sheets, tables):
        grid = sh[2]
        width = max([len(row) for row in grid], default=0)
        want = [[expected_native(row[c] if c < len(row) else None) for c in range(width)] for row in grid]
        got = t.get_table()
        same = len(got) == len(want) and all(len(a) == len(b) and all(values_equal(x, y) for x, y in zip(a, b)) for a, b in zip(got, want))
        if not same:
            issues.append("table of %s = %r, expected %r" % (sh[1], got, want))
    if issues:
        report("EXTRACTOR-DISAGREES", name, " | ".join(issues))
    else:
        report("ok", name + " (extractor agrees)")


def both(name, doc, opts=None, extractor=True):
    data = B.xls(doc, None, opts)
    if check_writer(name, doc, data, opts):
        report("ok", name + " (writer valid, %d bytes)" % len(data))
        if extractor:
            check_extractor(name, doc, data)
    return data


def main():
    T = Tokens(0)
    c = lambda: ["s", T.new("C")]
    n = lambda: T.new("N")
    # --- simplest documents
    both("1 sheet, 1 token", ["doc", {}, [["sheet", n(), [[c()]]]]])
    both("1 sheet, 2x2 tokens", ["doc", {}, [["sheet", n(), [[c(), c()], [c(), c()]]]]])
    both("1 sheet, 3x1 tokens", ["doc", {}, [["sheet", n(), [[c()], [c()], [c()]]]]])
    both("1 empty sheet", ["doc", {}, [["sheet", n(), []]]])
    both("3 sheets", ["doc", {}, [["sheet", n(), [[c(), c()], [c(), c()]]], ["sheet", n(), [[c()], [c()]]], ["sheet", n(), [[c(), c(), c()], [c(), c(), c()]]]]])
    both("3 sheets, middle one empty", ["doc", {}, [["sheet", n(), [[c()], [c()]]], ["sheet", n(), []], ["sheet", n(), [[c()], [c()]]]]])
    both("repeated string (shared SST entry)", ["doc", {}, [["sheet", n(), [[c(), c()], [["s", "Cbbbbb"], ["s", "Cbbbbb"]]]]]])
    both("sparse grid (None cells, ragged rows)", ["doc", {}, [["sheet", n(), [[c(), c(), c()], [None, c()], [c(), None, c()]]]]])
    both("leading empty row and column", ["doc", {}, [["sheet", n(), [[None, None], [None, c()], [None, c()]]]]])
    # --- every cell type, under a header row (the extractor takes row 1 as header)
    for label, cell in [("string", c()), ("int", ["i", 42]), ("negative int", ["i", -7]), ("big int", ["i", 2 ** 40]), ("float", ["f", 2.5]),
                        ("float 0.1", ["f", 0.1]), ("bool True", ["b", True]), ("bool False", ["b", False]), ("date", ["d", "2024-03-01"]),
                        ("date 1900-02-28", ["d", "1900-02-28"]), ("date 1900-03-01", ["d", "1900-03-01"]), ("datetime", ["dt", "2024-03-01T12:30:15"]),
                        ("datetime at midnight", ["dt", "2024-03-01T00:00:00"]), ("time", ["tm", "13:14:15"]), ("duration 100000 s", ["dur", 100000]),
                        ("duration 90 s", ["dur", 90]), ("error #DIV/0!", ["err", "#DIV/0!"]), ("error #N/A", ["err", "#N/A"]),
                        ("formula number", ["fml", "SUM(A1:A1)+1", ["f", 4.5]]), ("formula string", ["fml", 'A1&"x"', ["s", T.new("C")]]),
                        ("formula bool", ["fml", "1<2", ["b", True]]), ("formula error", ["fml", "1/0", ["err", "#DIV/0!"]]),
                        ("formula date", ["fml", "DATE(2024,3,1)", ["d", "2024-03-01"]]), ("formula empty string", ["fml", 'LEFT("a",0)', ["s", ""]]),
                        ("unicode string", ["s", "Cbcdfg Ünï 名前 \U0001F600"]), ("empty string", ["s", ""])]:
        both("cell type: " + label, ["doc", {}, [["sheet", n(), [[c()], [cell]]]]])
    both("cell types with RK integers", ["doc", {}, [["sheet", n(), [[c(), c()], [["i", 5], ["i", -(1 << 29)]], [["i", (1 << 29) - 1], ["i", 1 << 29]]]]]], {"rk": True})
    both("1904 date system", ["doc", {}, [["sheet", n(), [[c(), c()], [["d", "2024-03-01"], ["dt", "1904-01-02T06:00:00"]]]]]], {"datemode": 1})
    both("BLANK records", ["doc", {}, [["sheet", n(), [[c(), None, c()], [None, c()]]]]], {"blank_records": True})
    # --- formulas: grammar coverage through xlrd's decompiler
    fm = ["1+2*3", "(1+2)*3", "-A1^2", "A1%", "$A$1+B$2+$C3", "SUM(A1:B2,C3,4)", "SUM(A1+1)", "AVERAGE(A1:A3)/COUNT(A1:A3)", 'CONCATENATE("a""b",A1)',
          "A1<>B1", "A1>=2", 'UPPER("x")&LOWER("Y")', "ROUND(PI(),2)", "MOD(7,3)", "TRUE", "1.5E3+70000", "NOT(AND(A1,OR(B1,FALSE)))", "MID(A1,1,2)", "IV65536"]
    both("formula grammar (%d formulas)" % len(fm), ["doc", {}, [["sheet", n(), [[["fml", f, ["i", 1]]] for f in fm]]]], extractor=False)
    # hand-assembled token strings ([MS-XLS] 2.5.198) for what xlrd's decompiler prints differently (redundant parentheses, error constants)
    for f, want in [("SUM((A1))", "240000 00c0 15 42 01 0400"), ("#N/A", "1c2a"), ("SUM(A1)", "240000 00c0 42 01 0400"), ("A1+1", "440000 00c0 1e0100 03"),
                    ("SUM($B$3:C4)", "25 0200 0300 0100 02c0 42 01 0400"), ('"a"&TRUE', "17 01 00 61 1d01 08"), ("-1.5", "1f 000000000000f83f 13"),
                    ("ABS(A1)", "440000 00c0 41 1800"), ("SUM(A1%)", "440000 00c0 14 42 01 0400")]:
        got = B.compile_formula(f).hex()
        if got != want.replace(" ", ""):
            report("WRITER-INVALID", "token string of %s" % f, "%s, expected %s" % (got, want))
        else:
            report("ok", "token string of %s = %s" % (f, want))
    for f in ("SUM(", "FOO(1)", "A1:B", "Sheet2!A1", "{1,2}", "IW1", "A65537", "IF(1,2,3)"):
        try:
            B.compile_formula(f)
            report("WRITER-INVALID", "formula %r accepted" % f)
        except NotImplementedError:
            report("ok", "formula %r refused (NotImplementedError)" % f)
    for k, v in B.FUNCS.items():
        fd = xlrd.formula.func_defs.get(v[0])
        if not fd or fd[0] != k or fd[1] > v[1] or fd[2] < v[2]:
            report("WRITER-INVALID", "function table entry %s" % k, repr(fd))
    # --- SST continuation
    long1 = "C" + "b" * 9000
    wide = "Cwide" + "Ж" * 5000
    many = [[["s", "Cs%05d" % i + "x" * (i % 50)] for i in range(r * 4, r * 4 + 4)] for r in range(600)]
    both("SST > 8224 bytes (2400 strings, CONTINUE at string boundaries)", ["doc", {}, [["sheet", n(), many]]], extractor=False)
    both("strings longer than one record (compressed and UTF-16, split inside)", ["doc", {}, [["sheet", n(), [[c()], [["s", long1]], [["s", wide]], [["s", "x" * 32767]], [c()]]]]], extractor=False)
    for off in range(8190, 8230, 1):
        doc = ["doc", {}, [["sheet", "Nsplit", [[["s", "a" * off]], [["s", "Жbc"]], [["s", "tail"]]]]]]
        if not check_writer("SST split position %d" % off, doc, B.xls(doc)):
            break
    else:
        report("ok", "SST split positions 8190..8229 (header never split, UTF-16 never split in mid-character)")
    # --- the independent record / SST / EXTSST reader agrees with xlrd and with Excel's own EXTSST on real files
    for f in ("pb_2011_1_gen_web.xls", "xls_with_images.xls", "mwe.xls"):
        path = "/repo/sharepoint2text/tests/resources/legacy_ms/" + f
        try:
            with olefile.OleFileIO(path) as ole:
                wb = ole.openstream("Workbook").read()
        except OSError:
            continue
        try:
            recs = records(wb, lenient=True)
            si = [i for i, r_ in enumerate(recs) if r_[1] == 0x00FC]
            if not si:
                report("info", "real file %s has no SST" % f)
                continue
            total, strings, where = parse_sst(recs, si[0])
            bk = xlrd.open_workbook(path, logfile=io.StringIO(), on_demand=True)
            same = list(bk._sharedstrings) == strings
            ext = [p_ for _, t_, p_ in recs if t_ == 0x00FF]
            ext_ok = "no EXTSST"
            if ext:
                dsst = struct.unpack_from("<H", ext[0])[0]
                ents = [struct.unpack_from("<IHH", ext[0], 2 + 8 * i) for i in range((len(ext[0]) - 2) // 8)]
                ext_ok = "EXTSST %d/%d buckets point where this reader finds the strings" % (sum((ib, cb) == where[i * dsst] for i, (ib, cb, _) in enumerate(ents) if i * dsst < len(where)), len(ents))
            bs = [struct.unpack_from("<I", p_)[0] for _, t_, p_ in recs if t_ == 0x0085]
            bofs = [o_ for o_, t_, _ in recs if t_ == 0x0809][1:]
            good = same and set(bs) <= set(bofs) and (not ext or ext_ok.startswith("EXTSST %d/%d" % (len(ents), len(ents))))
            report("ok" if good else "WRITER-INVALID", "real file %s: %d shared strings %s xlrd's, BOUNDSHEET offsets hit BOF records: %s, %s" %
                   (f, len(strings), "equal" if same else "DIFFER from", set(bs) <= set(bofs), ext_ok))
        except Exception as e:
            report("WRITER-INVALID", "real file %s: independent reader fails" % f, "%s: %s" % (type(e).__name__, e))
    # --- limits / refusals
    for label, doc in [("sheet name too long", ["doc", {}, [["sheet", "N" * 32, []]]]), ("sheet name with slash", ["doc", {}, [["sheet", "N/a", []]]]),
                       ("duplicate sheet names", ["doc", {}, [["sheet", "Nab", []], ["sheet", "NAB", []]]]), ("no sheets", ["doc", {}, []]),
                       ("text unit", ["doc", {}, [["unit", [], {}]]]), ("257 columns", ["doc", {}, [["sheet", "Nwide", [[["i", 1]] * 257]]]]),
                       ("unknown cell type", ["doc", {}, [["sheet", "Nx", [[["zz", 1]]]]]]), ("unknown meta", ["doc", {"zz": "a"}, [["sheet", "Nx", []]]]),
                       ("date before 1900", ["doc", {}, [["sheet", "Nx", [[["d", "1899-12-31"]]]]]]), ("NaN", ["doc", {}, [["sheet", "Nx", [[["f", float("nan")]]]]]]),
                       ("33000-character string", ["doc", {}, [["sheet", "Nx", [[["s", "x" * 33000]]]]]])]:
        try:
            B.xls(doc)
            report("WRITER-INVALID", "%s accepted" % label)
        except NotImplementedError:
            report("ok", "%s refused (NotImplementedError)" % label)
    both("256 columns x 40 rows, row 65536", ["doc", {}, [["sheet", n(), [[["i", r * 256 + c_] for c_ in range(256)] for r in range(40)]],
                                                      ["sheet", n(), [[]] * 65535 + [[["i", 1]]]]]], extractor=False)
    # --- metadata
    meta = {"title": T.new("Z"), "author": T.new("Z"), "subject": T.new("Z"), "keywords": T.new("Z"), "description": T.new("Z"), "header": T.new("R"), "footer": T.new("R")}
    doc = ["doc", meta, [["sheet", n(), [[c()], [c()]]]]]
    data = both("metadata + header/footer", doc, {"summary": {"company": "Zcomp", "last_saved_by": "Zlast", "created": "2020-01-02T03:04:05", "modified": "2021-02-03T04:05:06"}})
    with olefile.OleFileIO(io.BytesIO(data)) as ole:
        md = ole.get_metadata()
        got = {"title": md.title, "author": md.author, "subject": md.subject, "keywords": md.keywords, "description": md.comments}
    if {k: v.decode("cp1252") for k, v in got.items()} != {k: meta[k] for k in got} or md.company != b"Zcomp":
        report("WRITER-INVALID", "summary information as read by olefile", repr(got))
    recs = records(strict_read(data)[0]["Workbook"])
    hf = [read_ustr(p, 0)[0] for _, t, p in recs if t in (0x14, 0x15) and p]
    if hf != ["&C" + meta["header"], "&C" + meta["footer"]]:
        report("WRITER-INVALID", "HEADER/FOOTER records", repr(hf))
    r = extractor_view(data)
    m = r.get_metadata()
    miss = [k for k, v in (("title", m.title), ("author", m.author), ("subject", m.subject)) if v != meta[k]]
    if miss or m.company != "Zcomp" or m.last_saved_by != "Zlast" or m.created != "2020-01-02T03:04:05" or m.modified != "2021-02-03T04:05:06":
        report("EXTRACTOR-DISAGREES", "metadata", repr(m))
    else:
        report("ok", "metadata title/author/subject/company/last_saved_by/created/modified (extractor agrees; keywords/comments have no field in XlsMetadata)")
    if meta["header"] in r.get_full_text() or meta["footer"] in r.get_full_text():
        report("EXTRACTOR-DISAGREES", "header/footer text leaks into full text")
    for label, m2 in (("cp1252 title 'Café'", {"title": "Café"}), ("UTF-8 title", {"title": "Zażółć 名前"})):
        d2 = B.xls(["doc", m2, [["sheet", "Nmeta", [[c()], [c()]]]]])
        check_writer(label, ["doc", m2, [["sheet", "Nmeta", []]]], B.xls(["doc", m2, [["sheet", "Nmeta", []]]]))
        try:
            got = extractor_view(d2).get_metadata().title
            if got != m2["title"]:
                report("EXTRACTOR-DISAGREES", "metadata " + label, "title %r" % got)
            else:
                report("ok", "metadata " + label + " (extractor agrees)")
        except Exception as e:
            report("EXTRACTOR-DISAGREES", "metadata " + label, "read_xls raised %s (cause %r)" % (type(e).__name__, e.__cause__))
    # --- FILEPASS at several positions
    doc = ["doc", {}, [["sheet", n(), [[c(), c()], [c(), c()]]], ["sheet", n(), [[c()], [c()]]]]]
    nglob = len([1 for _ in B._globals_head(2, 0)]) + 2 + 4
    for k in (0, 1, 2, 5, 20, nglob - 4, nglob - 3, nglob - 2, nglob - 1, nglob):
        data = B.xls(doc, None, {"filepass_at": k})
        if not check_writer("FILEPASS at record index %d" % k, doc, data, {"filepass_at": k, "_after_eof": k == nglob}):
            continue
        recs = records(strict_read(data)[0]["Workbook"])
        if recs[k][1] != 0x002F or len(recs[k][2]) != 54:
            report("WRITER-INVALID", "FILEPASS at record index %d is not there" % k)
            continue
        try:
            extractor_view(data)
            report("EXTRACTOR-DISAGREES", "FILEPASS at record index %d: read_xls returned content instead of ExtractionFileEncryptedError" % k)
        except ExtractionFileEncryptedError:
            report("ok", "FILEPASS at record index %d (writer valid, extractor raises ExtractionFileEncryptedError)" % k)
        except Exception as e:
            report("EXTRACTOR-DISAGREES", "FILEPASS at record index %d" % k, "%s: %s" % (type(e).__name__, e))
    # --- pictures
    import zlib

    def png(w, h, seed=1):
        raw = b"".join(b"\0" + bytes((x * 7 + y * 13 + seed * 31 + (x * y) % 251) & 0xFF for x in range(w * 3)) for y in range(h))
        def ch(t, d):
            return struct.pack(">I", len(d)) + t + d + struct.pack(">I", zlib.crc32(t + d))
        return b"\x89PNG\r\n\x1a\n" + ch(b"IHDR", struct.pack(">IIBBBBB", w, h, 8, 2, 0, 0, 0)) + ch(b"IDAT", zlib.compress(raw, 0)) + ch(b"IEND", b"")
    bmp = b"BM" + struct.pack("<IHHI", 54 + 16, 0, 0, 54) + struct.pack("<IiiHHIIiiII", 40, 2, 2, 1, 24, 0, 16, 2835, 2835, 0, 0) + bytes(range(16))
    imgs = {"small": png(2, 2), "big": png(80, 60, 2), "huge": png(300, 200, 3), "bmp": bmp}
    try:
        with olefile.OleFileIO("/repo/sharepoint2text/tests/resources/legacy_ms/ppt_with_images.ppt") as ole:
            pics = ole.openstream("Pictures").read()
        off = 0
        while off + 8 <= len(pics):
            vi, t, ln = struct.unpack_from("<HHI", pics, off)
            if t == 0xF01D and "jpeg" not in imgs:
                imgs["jpeg"] = pics[off + 8 + 17:off + 8 + ln]
            off += 8 + ln
    except OSError:
        pass
    report("info", "test images: " + ", ".join("%s=%d bytes" % kv for kv in sorted((k, len(v)) for k, v in imgs.items())))

    def oa_walk(b, o, e, out, depth=0):
        while o < e:
            if o + 8 > e:
                raise ValueError("OfficeArt record header cut at %d" % o)
            vi, t, ln = struct.unpack_from("<HHI", b, o)
            if o + 8 + ln > e:
                raise ValueError("OfficeArt record 0x%04x at %d overruns its container" % (t, o))
            out.append((depth, t, vi & 0xF, vi >> 4, b[o + 8:o + 8 + ln]))
            if vi & 0xF == 0xF:
                oa_walk(b, o + 8, o + 8 + ln, out, depth + 1)
            elif t == 0xF007 and ln > 36:
                oa_walk(b, o + 8 + 36, o + 8 + ln, out, depth + 1)
            o += 8 + ln

    def check_pictures(name, doc, pictures):
        data = B.xls(doc, imgs, {"pictures": pictures})
        if not check_writer(name, doc, data):
            return
        recs = records(strict_read(data)[0]["Workbook"])
        problems = []
        grp = b""
        for i, (_, t, p) in enumerate(recs):
            if t == 0x00EB:
                grp = p
                j = i + 1
                while recs[j][1] == 0x003C:
                    grp += recs[j][2]
                    j += 1
                if recs[i - 1][1] != 0x008C or recs[j][1] != 0x00FC:
                    problems.append("MSODRAWINGGROUP not between COUNTRY and SST")
        tree = []
        try:
            oa_walk(grp, 0, len(grp), tree)
            keys = []
            for k in (k for _, k in pictures):
                if k not in keys:
                    keys.append(k)
            bl = [(t, inst, d) for _, t, _, inst, d in tree if 0xF018 <= t <= 0xF117]
            bse = [d for _, t, _, _, d in tree if t == 0xF007]
            if len(bl) != len(keys) or len(bse) != len(keys):
                problems.append("%d BLIPs / %d BSEs for %d images" % (len(bl), len(bse), len(keys)))
            for (t, inst, d), e, k in zip(bl, bse, keys):
                img = imgs[k]
                want = img[14:] if img[:2] == b"BM" else img
                if d[17:] != want or d[16] != 0xFF:
                    problems.append("BLIP payload of %s" % k)
                if d[:16] != e[2:18] or struct.unpack_from("<I", e, 20)[0] != len(d) + 8:
                    problems.append("BSE uid/size of %s" % k)
                if struct.unpack_from("<I", e, 24)[0] != sum(1 for _, kk in pictures if kk == k):
                    problems.append("BSE reference count of %s" % k)
            # sheet drawings: concatenated MSODRAWING payloads of a sheet form one well-nested DgContainer; every shape is followed by OBJ
            sheet = -1
            per = {}
            for i, (_, t, p) in enumerate(recs):
                if t == 0x0809:
                    sheet += 1
                if t == 0x00EC:
                    per.setdefault(sheet - 1, []).append(p)
                    if recs[i + 1][1] != 0x005D:
                        problems.append("MSODRAWING without OBJ")
            want_per = {}
            for si, k in pictures:
                want_per.setdefault(si, []).append(keys.index(k) + 1)
            if sorted(per) != sorted(want_per):
                problems.append("sheets with drawings %r, expected %r" % (sorted(per), sorted(want_per)))
            for si, parts in per.items():
                t2 = []
                blob = b"".join(parts)
                oa_walk(blob, 0, len(blob), t2)
                if [x[1] for x in t2 if x[0] == 0] != [0xF002]:
                    problems.append("sheet %d drawing is not one DgContainer" % si)
                pibs = []
                for _, t, ver, inst, d in t2:
                    if t == 0xF00B:
                        for q in range(inst):
                            pid, val = struct.unpack_from("<HI", d, 6 * q)
                            if pid == 0x4104:
                                pibs.append(val)
                if pibs != want_per.get(si):
                    problems.append("sheet %d picture references %r, expected %r" % (si, pibs, want_per.get(si)))
        except Exception as e:
            problems.append("%s: %s" % (type(e).__name__, e))
        if problems:
            report("WRITER-INVALID", name, "; ".join(problems[:3]))
            return
        report("ok", name + " (writer valid, %d bytes)" % len(data))
        try:
            r = extractor_view(data)
        except Exception as e:
            report("EXTRACTOR-DISAGREES", name, "read_xls raised %s: %s (cause %r)" % (type(e).__name__, e, e.__cause__))
            return
        got = [im.data for im in r.iterate_images()]
        want = []
        for _, k in pictures:
            if imgs[k] not in want:
                want.append(imgs[k])
        if got == want:
            report("ok", name + " (extractor returns the %d image(s) byte-identically)" % len(want))
        else:
            desc = []
            for g_, w_ in zip(got, want):
                if g_ != w_:
                    first = next((i for i in range(min(len(g_), len(w_))) if g_[i] != w_[i]), min(len(g_), len(w_)))
                    desc.append("image of %d bytes came back as %d bytes, first difference at offset %d (%s)" % (len(w_), len(g_), first, g_[first:first + 4].hex()))
            report("EXTRACTOR-DISAGREES", name, "%d images returned, %d expected; %s" % (len(got), len(want), "; ".join(desc)))
    d3 = ["doc", {}, [["sheet", n(), [[c()], [c()]]], ["sheet", n(), [[c()], [c()]]], ["sheet", n(), [[c()], [c()]]]]]
    check_pictures("picture: 1 small PNG on sheet 1", d3, [[0, "small"]])
    check_pictures("picture: PNG of %d bytes (> one BIFF record)" % len(imgs["big"]), d3, [[0, "big"]])
    check_pictures("picture: PNG of %d bytes" % len(imgs["huge"]), d3, [[1, "huge"]])
    check_pictures("picture: BMP stored as DIB", d3, [[0, "bmp"]])
    if "jpeg" in imgs:
        check_pictures("picture: JPEG of %d bytes" % len(imgs["jpeg"]), d3, [[2, "jpeg"]])
    check_pictures("pictures: 3 on two sheets, one image used twice", d3, [[0, "small"], [2, "big"], [2, "small"]])
    both("stream named 'Book'", ["doc", {}, [["sheet", n(), [[c()], [c()]]]]], {"stream_name": "Book"})
    # --- real fixture comparison: record types Excel/xlwt write that we do not (information only)
    d1 = B.xls(["doc", {}, [["sheet", "Nsheet", [[c()]]]]])
    if B.xls(["doc", {}, [["sheet", "Nsheet", [[["s", "Cq"]]]]]]) != B.xls(["doc", {}, [["sheet", "Nsheet", [[["s", "Cq"]]]]]]):
        report("WRITER-INVALID", "not deterministic")
    import timeit
    t = timeit.timeit(lambda: B.xls(["doc", {}, [["sheet", "Nsheet", [[["s", "Cq"]]]]]]), number=200) / 200
    report("info", "render time of a 1-cell workbook: %.3f ms, %d bytes" % (t * 1000, len(d1)))
    print("\nSUMMARY biff8: %d ok, %d WRITER-INVALID, %d EXTRACTOR-DISAGREES, %d info" %
          (RESULTS["ok"], RESULTS["WRITER-INVALID"], RESULTS["EXTRACTOR-DISAGREES"], RESULTS["info"]))
    return 0


if __name__ == "__main__":
    sys.exit(main())
