"""Self-test of verif.gen.zipforge.   PYTHONPATH=/verif /venv/bin/python -B -m verif.gen.selftest_zipforge

Independent readers: zipfile (central directory, data, CRC check, decryption, ZIP64) and a tiny struct-based parser of the
local headers / end records written here from APPNOTE.TXT (zipfile never looks at most local header fields).
WRITER-INVALID = zipfile / the struct parser rejects or disagrees with an *honest* archive, or a forged field did not land
where it should.  EXTRACTOR-DISAGREES = the library's read_archive differs from the ground truth on a valid archive.
"""
from __future__ import annotations

import io
import os
import shutil
import struct
import subprocess
import sys
import tempfile
import zipfile
import zlib

from verif.gen import zipforge as Z
from verif.gen.tokens import Tokens, find_tokens

COUNTS = {"OK": 0, "WRITER-INVALID": 0, "EXTRACTOR-DISAGREES": 0, "FORGED-OK": 0, "NOTE": 0}
DISAGREE = []


def line(status, name, detail=""):
    COUNTS[status] += 1
    if status == "EXTRACTOR-DISAGREES":
        DISAGREE.append((name, detail))
    print(f"{status:20s} {name}" + (f"   {detail}" if detail else ""))


def short(x, n=200):
    s = repr(x)
    return s if len(s) <= n else s[:n] + "..."


# ------------------------------------------------------------------------------------------------ struct-level parser
def parse_end(blob: bytes) -> dict:
    """EOCD (+ ZIP64 EOCD / locator) fields"""
    p = blob.rfind(b"PK\x05\x06")
    if p < 0:
        raise ValueError("no EOCD")
    sig, disk, cd_disk, n_disk, n_total, cd_size, cd_off, clen = struct.unpack("<4sHHHHIIH", blob[p:p + 22])
    out = {"pos": p, "n_disk": n_disk, "n_total": n_total, "cd_size": cd_size, "cd_offset": cd_off, "comment": blob[p + 22:p + 22 + clen]}
    if p + 22 + clen != len(blob):
        raise ValueError("bytes after the EOCD comment")
    if blob[p - 20:p - 16] == b"PK\x06\x07":
        _, d, z64pos, nd = struct.unpack("<4sIQI", blob[p - 20:p])
        rec = struct.unpack("<4sQHHIIQQQQ", blob[z64pos:z64pos + 56])
        if rec[0] != b"PK\x06\x06" or rec[1] != 44:
            raise ValueError("bad ZIP64 EOCD")
        out["zip64"] = {"n_disk": rec[6], "n_total": rec[7], "cd_size": rec[8], "cd_offset": rec[9]}
    return out


def parse_local(blob: bytes, offset: int) -> dict:
    sig, ver, flags, method, t, d, crc, csize, usize, nlen, elen = struct.unpack("<4sHHHHHIIIHH", blob[offset:offset + 30])
    if sig != b"PK\x03\x04":
        raise ValueError(f"no local header at {offset}")
    name = blob[offset + 30:offset + 30 + nlen]
    extra = blob[offset + 30 + nlen:offset + 30 + nlen + elen]
    out = {"version": ver, "flags": flags, "method": method, "time": t, "date": d, "crc": crc, "csize": csize, "usize": usize, "name": name,
           "extra": extra, "data_offset": offset + 30 + nlen + elen}
    q = 0
    while q + 4 <= len(extra):
        hid, hl = struct.unpack("<HH", extra[q:q + 4])
        if hid == 1 and hl == 16:
            out["usize64"], out["csize64"] = struct.unpack("<QQ", extra[q + 4:q + 20])
        q += 4 + hl
    return out


def parse_central(blob: bytes) -> list:
    """walk the central directory by hand (from the true position: the last PK\\1\\2 run before the end records)"""
    end = parse_end(blob)
    p = blob.find(b"PK\x01\x02") if end["n_total"] or b"PK\x01\x02" in blob else -1
    # the true start = file offset where the first central header sits; locate it as first PK\1\2 after the last local data
    out = []
    # robust: scan forward from the first central signature whose chain ends exactly at the end records
    starts = [i for i in range(len(blob)) if blob[i:i + 4] == b"PK\x01\x02"]
    for s in starts:
        q, chain = s, []
        while blob[q:q + 4] == b"PK\x01\x02":
            f = struct.unpack("<4sHHHHHHIIIHHHHHII", blob[q:q + 46])
            nlen, elen, clen = f[10], f[11], f[12]
            chain.append({"made_by": f[1], "version": f[2], "flags": f[3], "method": f[4], "crc": f[7], "csize": f[8], "usize": f[9],
                          "ext_attr": f[15], "offset": f[16], "name": blob[q + 46:q + 46 + nlen],
                          "extra": blob[q + 46 + nlen:q + 46 + nlen + elen], "comment": blob[q + 46 + nlen + elen:q + 46 + nlen + elen + clen]})
            q += 46 + nlen + elen + clen
        if blob[q:q + 4] in (b"PK\x05\x06", b"PK\x06\x06"):
            return chain, s
    return out, -1


# ------------------------------------------------------------------------------------------------ helpers
def zf_read_all(blob: bytes, pwd=None):
    with zipfile.ZipFile(io.BytesIO(blob)) as z:
        bad = z.testzip() if pwd is None else None
        if bad is not None:
            raise zipfile.BadZipFile(f"testzip: {bad}")
        return [(i.filename, i.is_dir(), z.read(i, pwd=pwd)) for i in z.infolist()]


def expected(members):
    out = []
    for m in members:
        n = m["name"]
        if m.get("is_dir") and not n.endswith("/"):
            n += "/"
        out.append((n, n.endswith("/"), bytes(m.get("data") or b"")))
    return out


def lib_read_archive(blob, path="t.zip"):
    from sharepoint2text.parsing.extractors.archive_extractor import read_archive
    return [(r.get_metadata().filename, r.get_full_text()) for r in read_archive(io.BytesIO(blob), path)]


HOSTILE_NAMES = ["/abs.txt", "//h/abs.txt", "../up.txt", "a/../../up.txt", "..\\up.txt", "a\\b.txt", "C:\\x\\c.txt", "C:rel.txt",
                 "\\\\h\\s\\unc.txt", "", ".", "..", "a//b.txt", "./a.txt", ".hidden.txt", "__MACOSX/a.txt", "a" * 251 + ".txt",
                 "ü.txt", "日本語/ファイル.txt", "e\u0301.txt", "\U0001F600.txt", " lead.txt", "trail.txt ", "a\nb.txt", "a:b.txt", "a*?.txt",
                 "d" * 300 + "/" + "f" * 300 + ".txt"]


# ------------------------------------------------------------------------------------------------ checks
def check_honest(tk: Tokens):
    valid = []
    datas = {"empty": b"", "1-byte": b"B", "token": tk.new("B").encode(), "tokens-x200": (" ".join(tk.new("B") for _ in range(200))).encode(),
             "binary": bytes(range(256)) * 40}
    for method in Z.REAL_METHODS:
        members = [{"name": f"{k}.txt", "data": d, "method": method} for k, d in datas.items()]
        members.insert(2, {"name": "dir", "is_dir": True})
        members.append({"name": "dir/in.txt", "data": tk.new("B").encode(), "method": method})
        name = f"honest method={method}"
        try:
            assert Z.honest(members)
            blob = Z.zipforge(members)
            assert blob == Z.zipforge(members), "not deterministic"
            got = zf_read_all(blob)
            if got != expected(members):
                raise AssertionError(f"zipfile reads {short(got)} want {short(expected(members))}")
            line("OK", name + ": zipfile testzip()/read() byte-for-byte", f"{len(members)} members, {len(blob)} bytes")
            valid.append((name, members, blob))
            ref = Z.zip_honest(members)
            if ref == blob:
                line("OK", name + ": zipforge output is byte-identical to zipfile's own writer (zip_honest)")
            else:
                diff = next(i for i in range(min(len(ref), len(blob))) if ref[i] != blob[i]) if ref[:len(blob)] != blob[:len(ref)] else min(len(ref), len(blob))
                line("NOTE", name + ": differs from zipfile's writer", f"first difference at byte {diff} ({len(blob)} vs {len(ref)} bytes)")
            # local headers agree with the central directory
            chain, cd_pos = parse_central(blob)
            end = parse_end(blob)
            bad = []
            if cd_pos != end["cd_offset"] or end["n_total"] != len(members) or end["n_disk"] != len(members) or end["cd_size"] != end["pos"] - cd_pos:
                bad.append(f"EOCD {end} vs central directory at {cd_pos}")
            for c, m in zip(chain, members):
                lo = parse_local(blob, c["offset"])
                for k in ("version", "flags", "method", "crc", "csize", "usize", "name", "extra"):
                    if lo[k] != c[k]:
                        bad.append(f"{m['name']}: local {k}={lo[k]!r} central {c[k]!r}")
                if c["crc"] != zlib.crc32(bytes(m.get("data") or b"")) & 0xFFFFFFFF or c["usize"] != len(m.get("data") or b""):
                    bad.append(f"{m['name']}: crc/usize wrong")
            line("OK" if not bad else "WRITER-INVALID", name + ": local headers == central directory == EOCD (struct parser)", "; ".join(bad[:3]))
        except Exception as e:
            line("WRITER-INVALID", name, f"{type(e).__name__}: {e}")
    # mixed methods in one archive, entry comments, extra fields, external attrs, archive comment, prefix
    t1, t2 = tk.new("B"), tk.new("B")
    members = [{"name": "s.txt", "data": t1.encode(), "method": 0, "comment": b"c1", "external_attr": 0o100600 << 16},
               {"name": "d.txt", "data": t2.encode() * 50, "method": 8, "extra": struct.pack("<HH4s", 0xCAFE, 4, b"abcd"), "date_time": (2024, 2, 29, 23, 59, 58)}]
    for o in ({}, {"comment": b"archive comment"}, {"comment": "ü"}, {"prefix": b"#!/bin/sh\n" * 3}):
        try:
            blob = Z.zipforge(members, o)
            with zipfile.ZipFile(io.BytesIO(blob)) as z:
                assert z.testzip() is None
                i0, i1 = z.infolist()
                assert (i0.comment, i0.external_attr >> 16, i1.extra, i1.date_time) == (b"c1", 0o100600, members[1]["extra"], (2024, 2, 29, 23, 59, 58)), "entry fields"
                want_c = o.get("comment", b"")
                assert z.comment == (want_c.encode() if isinstance(want_c, str) else want_c), "archive comment"
                assert z.read("d.txt") == members[1]["data"]
            line("OK", f"honest mixed methods + entry comment/extra/attr/date, opts={short(o, 60)}")
            valid.append((f"mixed opts={short(o, 40)}", members, blob))
        except Exception as e:
            line("WRITER-INVALID", f"honest mixed opts={o}", f"{type(e).__name__}: {e}")
    # data descriptor (bit 3)
    for method in (0, 8):
        m = [{"name": "a.txt", "data": t1.encode(), "method": method, "flag_bits": 0x08}, {"name": "b.txt", "data": t2.encode(), "method": method}]
        try:
            assert Z.honest(m)
            blob = Z.zipforge(m)
            assert zf_read_all(blob) == expected(m)
            lo = parse_local(blob, 0)
            assert (lo["crc"], lo["csize"], lo["usize"]) == (0, 0, 0) and lo["flags"] & 8, "local header must carry zeros with bit 3"
            q = lo["data_offset"] + zipfile.ZipFile(io.BytesIO(blob)).infolist()[0].compress_size
            assert blob[q:q + 4] == b"PK\x07\x08" and struct.unpack("<III", blob[q + 4:q + 16])[2] == len(m[0]["data"]), "data descriptor"
            line("OK", f"honest data descriptor (bit 3) method={method}: zipfile reads, descriptor present")
            valid.append((f"data-descriptor method={method}", m, blob))
        except Exception as e:
            line("WRITER-INVALID", f"data descriptor method={method}", f"{type(e).__name__}: {e}")
    # empty archive
    try:
        blob = Z.zipforge([])
        assert len(blob) == 22 and zf_read_all(blob) == [] and blob == Z.zip_honest([])
        line("OK", "honest empty archive = 22-byte EOCD, identical to zipfile's")
        valid.append(("empty archive", [], blob))
    except Exception as e:
        line("WRITER-INVALID", "empty archive", f"{type(e).__name__}: {e}")
    return valid


def check_names(tk: Tokens):
    ok = 0
    for nm in HOSTILE_NAMES:
        for kind in ("file", "dir"):
            m = [{"name": nm, "data": tk.new("B").encode(), "method": 8} if kind == "file" else {"name": nm, "is_dir": True}]
            try:
                blob = Z.zipforge(m)
                got = zf_read_all(blob)
                if got != expected(m):
                    raise AssertionError(f"zipfile: {short(got)} want {short(expected(m))}")
                c, _ = parse_central(blob)
                want_flag = 0 if nm.isascii() else 0x800
                if c[0]["flags"] & 0x800 != want_flag or c[0]["name"] != expected(m)[0][0].encode("utf-8"):
                    raise AssertionError("UTF-8 flag / raw name bytes")
                ok += 1
            except Exception as e:
                line("WRITER-INVALID", f"hostile name {nm[:40]!r} as {kind}", f"{type(e).__name__}: {e}")
    line("OK" if ok == 2 * len(HOSTILE_NAMES) else "WRITER-INVALID", f"hostile names read back verbatim by zipfile: {ok}/{2 * len(HOSTILE_NAMES)} (UTF-8 flag iff non-ASCII)")
    m = [{"name": nm, "data": tk.new("B").encode()} for nm in HOSTILE_NAMES] + [{"name": "dup.txt", "data": b"1"}, {"name": "dup.txt", "data": b"2"}]
    try:
        assert zf_read_all(Z.zipforge(m)) == expected(m)
        line("OK", f"all {len(m)} hostile names (+ a duplicate name) in one archive")
    except Exception as e:
        line("WRITER-INVALID", "hostile names in one archive", f"{type(e).__name__}: {e}")
    # legacy raw names
    try:
        blob = Z.zipforge([{"name": "x", "name_bytes": b"caf\x82.txt", "data": b"x"}])
        assert zipfile.ZipFile(io.BytesIO(blob)).namelist() == ["café.txt"] and not Z.honest([{"name": "x", "name_bytes": b"caf\x82.txt"}])
        line("OK", "name_bytes: CP437 name without UTF-8 flag decoded by zipfile as 'café.txt'")
    except Exception as e:
        line("WRITER-INVALID", "name_bytes", f"{type(e).__name__}: {e}")
    for bad in (lambda: Z.zipforge([{"name": "a", "symlink": 1}]), lambda: Z.zipforge([], {"split": 2}), lambda: Z.zip_honest([{"name": "a", "crc": 1}])):
        try:
            bad()
            line("WRITER-INVALID", "unknown key accepted silently")
        except NotImplementedError as e:
            line("OK", f"NotImplementedError for inexpressible input ({e})")


def check_crypto(tk: Tokens):
    t = tk.new("B")
    for method in (0, 8):
        for flags in (0, 8):
            m = [{"name": "p.txt", "data": t.encode() * 3, "method": method, "password": b"pw123", "flag_bits": flags}, {"name": "q.txt", "data": b"plain"}]
            name = f"ZipCrypto password member method={method} flag_bits={flags}"
            try:
                assert Z.honest(m)
                blob = Z.zipforge(m)
                with zipfile.ZipFile(io.BytesIO(blob)) as z:
                    assert z.infolist()[0].flag_bits & 1 and not z.infolist()[1].flag_bits & 1
                    assert z.read("p.txt", pwd=b"pw123") == m[0]["data"], "decrypt"
                    assert z.read("q.txt") == b"plain"
                    try:
                        z.read("p.txt", pwd=b"wrong")
                        raise AssertionError("wrong password accepted")
                    except RuntimeError:
                        pass
                    try:
                        z.read("p.txt")
                        raise AssertionError("no password accepted")
                    except RuntimeError:
                        pass
                line("OK", name + ": zipfile decrypts with the password, refuses without / with a wrong one")
            except Exception as e:
                line("WRITER-INVALID", name, f"{type(e).__name__}: {e}")
    # agreement with the repository's password-protected fixture (same scheme: bit 0, 12-byte header)
    try:
        fx = open("/repo/sharepoint2text/tests/resources/archives/password_protected/sample-password-protected-pw123.zip", "rb").read()
        with zipfile.ZipFile(io.BytesIO(fx)) as z:
            fl = [(i.filename, i.flag_bits & 1, i.compress_type) for i in z.infolist()]
        line("OK", "fixture sample-password-protected-pw123.zip uses the same scheme (flag bit 0)", short(fl))
    except Exception as e:
        line("NOTE", "password fixture not inspected", f"{type(e).__name__}: {e}")


def check_forged(tk: Tokens):
    t = tk.new("B").encode()
    base = {"name": "a.txt", "data": t * 10, "method": 8}

    def fields(blob):
        c, _ = parse_central(blob)
        return c[0], parse_local(blob, c[0]["offset"])

    cases = [("file_size", 12345, "usize"), ("compress_size", 7, "csize"), ("crc", 0xDEADBEEF, "crc"), ("file_size", 0, "usize"), ("compress_size", 0, "csize")]
    for key, val, f in cases:
        m = [dict(base, **{key: val}), {"name": "b.txt", "data": t}]
        try:
            assert not Z.honest(m)
            blob = Z.zipforge(m)
            c, lo = fields(blob)
            with zipfile.ZipFile(io.BytesIO(blob)) as z:
                zi = z.infolist()[0]
                zview = {"usize": zi.file_size, "csize": zi.compress_size, "crc": zi.CRC}[f]
            assert c[f] == val and lo[f] == val and zview == val, f"central {c[f]} local {lo[f]} zipfile {zview}"
            line("FORGED-OK", f"forged {key}={val:#x}: central directory, local header and zipfile.infolist() all show it")
        except Exception as e:
            line("WRITER-INVALID", f"forged {key}={val}", f"{type(e).__name__}: {e}")
    # behaviour of zipfile on the forgeries (documents what each forgery means for a standard reader)
    probes = [("crc", {"crc": 1}, zipfile.BadZipFile), ("method=99", {"method": 99}, NotImplementedError), ("method=1", {"method": 1}, NotImplementedError),
              ("flag bit 0 without password", {"flag_bits": 1}, RuntimeError), 
              ("file_size-1", {"file_size": len(t) * 10 - 1}, zipfile.BadZipFile)]
    for label, kv, exc in probes:
        m = [dict(base, **kv)]
        try:
            blob = Z.zipforge(m)
            assert not Z.honest(m)
            with zipfile.ZipFile(io.BytesIO(blob)) as z:
                try:
                    z.read(z.infolist()[0])
                    line("WRITER-INVALID", f"forged {label}: zipfile read the member without complaint")
                except exc as e:
                    line("FORGED-OK", f"forged {label}: zipfile.read -> {type(e).__name__}: {short(str(e), 70)}")
        except Exception as e:
            line("WRITER-INVALID", f"forged {label}", f"{type(e).__name__}: {e}")
    # forged method keeps the data verbatim
    blob = Z.zipforge([dict(base, method=99)])
    c, lo = fields(blob)
    ok = c["method"] == lo["method"] == 99 and blob[lo["data_offset"]:lo["data_offset"] + c["csize"]] == base["data"]
    line("FORGED-OK" if ok else "WRITER-INVALID", "forged method=99: method field in both headers, payload stored verbatim")
    # external_attr, extra, flag bits
    blob = Z.zipforge([dict(base, external_attr=0xA1FF0000, flag_bits=0x40)])
    c, lo = fields(blob)
    ok = c["ext_attr"] == 0xA1FF0000 and c["flags"] == lo["flags"] == 0x40
    line("FORGED-OK" if ok else "WRITER-INVALID", "forged external_attr (symlink mode) and arbitrary flag bit in both headers")
    # ZIP64 sizes
    for key in ("file_size", "compress_size"):
        for val in (0xFFFFFFFE, 0xFFFFFFFF, 0x100000000, 5 * 1024 ** 3 + 1):
            m = [dict(base, **{key: val}), {"name": "b.txt", "data": t}]
            try:
                blob = Z.zipforge(m)
                with zipfile.ZipFile(io.BytesIO(blob)) as z:
                    zi = z.infolist()
                    got = zi[0].file_size if key == "file_size" else zi[0].compress_size
                    other = zi[0].compress_size if key == "file_size" else zi[0].file_size
                    assert got == val and len(zi) == 2 and z.read("b.txt") == t, f"zipfile sees {got}"
                    assert other == (len(Z._compress(base["data"], 8)) if key == "file_size" else len(base["data"])), "other size disturbed"
                lo = parse_local(blob, 0)
                lv = lo.get("usize64" if key == "file_size" else "csize64") if val >= 0xFFFFFFFF else lo["usize" if key == "file_size" else "csize"]
                assert lv == val, f"local header shows {lv}"
                line("FORGED-OK", f"forged {key}={val:#x}: {'ZIP64 extra' if val >= 0xFFFFFFFF else '32-bit field'} read back exactly by zipfile and from the local header")
            except Exception as e:
                line("WRITER-INVALID", f"forged {key}={val:#x}", f"{type(e).__name__}: {e}")
    # many entries -> ZIP64 end records
    for n in (65534, 65535, 65536, 70000):
        try:
            m = [{"name": f"{i}.txt", "data": b""} for i in range(n)]
            blob = Z.zipforge(m)
            end = parse_end(blob)
            with zipfile.ZipFile(io.BytesIO(blob)) as z:
                assert len(z.infolist()) == n and z.infolist()[-1].filename == f"{n - 1}.txt"
            assert ("zip64" in end) == (n >= 0xFFFF) and (end.get("zip64", end)["n_total"] == n)
            assert Z.honest(m)
            line("OK", f"honest archive with {n} entries ({'ZIP64 EOCD + locator' if 'zip64' in end else 'plain EOCD'}): zipfile lists all", f"{len(blob)} bytes")
        except Exception as e:
            line("WRITER-INVALID", f"{n} entries", f"{type(e).__name__}: {e}")
    # opts
    m = [dict(base), {"name": "b.txt", "data": t}]
    for n in (0, 1, 3, 65535, 70000):
        blob = Z.zipforge(m, {"entries_count_override": n})
        end = parse_end(blob)
        ok = (end.get("zip64", end)["n_total"] == n) and not Z.honest(m, {"entries_count_override": n})
        try:
            with zipfile.ZipFile(io.BytesIO(blob)) as z:
                zl = len(z.infolist())
            note = f"zipfile lists {zl}"
        except zipfile.BadZipFile as e:
            note = f"zipfile: BadZipFile {e}"
        line("FORGED-OK" if ok else "WRITER-INVALID", f"forged entries_count_override={n}: EOCD count fields show it", note)
    for delta in (-1, 1, -30, 1000):
        blob = Z.zipforge(m, {"cd_offset_delta": delta})
        end = parse_end(blob)
        _, true_pos = parse_central(blob)
        ok = end["cd_offset"] == true_pos + delta and not Z.honest(m, {"cd_offset_delta": delta})
        try:
            with zipfile.ZipFile(io.BytesIO(blob)) as z:
                z.read("b.txt")
            note = "zipfile still reads (treats the difference as prepended data)"
        except Exception as e:
            note = f"zipfile: {type(e).__name__}: {short(str(e), 60)}"
        line("FORGED-OK" if ok else "WRITER-INVALID", f"forged cd_offset_delta={delta}: EOCD offset = true offset {true_pos} + {delta}", note)


def check_library(tk: Tokens, valid):
    from sharepoint2text.parsing.exceptions import ExtractionFileEncryptedError, ExtractionFailedError

    def want_of(members):
        import os
        return [(os.path.basename(m["name"]), find_tokens(bytes(m.get("data") or b"").decode("utf-8", "replace"))) for m in members
                if not m.get("is_dir") and m["name"].endswith(".txt") and not os.path.basename(m["name"]).startswith(".")
                and not m["name"].startswith("__MACOSX/")]

    def compare(name, members, blob):
        import os
        try:
            got = [(os.path.basename(n or ""), find_tokens(t)) for n, t in lib_read_archive(blob)]
            if got == want_of(members):
                line("OK", name + " [read_archive]")
            else:
                line("EXTRACTOR-DISAGREES", name + " [read_archive]", f"got {short(got)} want {short(want_of(members))}")
        except Exception as e:
            line("EXTRACTOR-DISAGREES", name + " [read_archive]", f"{type(e).__name__}: {e} (cause {e.__cause__!r})"[:300])

    t = tk.new("B")
    for method in Z.REAL_METHODS:
        m = [{"name": "a.txt", "data": t.encode(), "method": method}]
        compare(f"simplest: one txt member method={method}", m, Z.zipforge(m))
    m = [{"name": "d", "is_dir": True}, {"name": "d/a.txt", "data": t.encode()}]
    compare("simplest: dir + file inside", m, Z.zipforge(m))
    m = [{"name": "a.txt", "data": b""}, {"name": "b.txt", "data": t.encode()}]
    compare("simplest: empty txt + txt", m, Z.zipforge(m))
    for nm in ("ü.txt", "\U0001F600.txt", "a\\b.txt", "/abs.txt", "../up.txt"):
        m = [{"name": nm, "data": t.encode()}]
        compare(f"simplest: name {nm!r}", m, Z.zipforge(m))
    for name, members, blob in valid:
        compare(name, members, blob)
    # encrypted member: must be reported as encrypted
    for label, m in (("real ZipCrypto member", [{"name": "a.txt", "data": t.encode(), "password": b"pw"}]),
                     ("flag bit 0 only", [{"name": "a.txt", "data": t.encode(), "flag_bits": 1}]),
                     ("second member encrypted", [{"name": "a.txt", "data": t.encode()}, {"name": "b.txt", "data": t.encode(), "password": b"pw"}])):
        try:
            r = lib_read_archive(Z.zipforge(m))
            line("EXTRACTOR-DISAGREES", f"encrypted: {label} [read_archive]", f"no ExtractionFileEncryptedError, got {short(r)}")
        except ExtractionFileEncryptedError:
            line("OK", f"encrypted: {label} [read_archive] raises ExtractionFileEncryptedError")
        except Exception as e:
            line("EXTRACTOR-DISAGREES", f"encrypted: {label} [read_archive]", f"{type(e).__name__}: {e}")
    # a damaged member should cost only its own result (valid container, one bad member)
    t2 = tk.new("B")
    for label, kv in (("unsupported method 99", {"method": 99}), ("bad CRC", {"crc": 1})):
        m = [{"name": "a.txt", "data": t.encode()}, dict({"name": "b.txt", "data": b"xx"}, **kv), {"name": "c.txt", "data": t2.encode()}]
        want = [("a.txt", [t]), ("c.txt", [t2])]
        try:
            got = [(n, find_tokens(x)) for n, x in lib_read_archive(Z.zipforge(m))]
            line("OK" if got == want else "EXTRACTOR-DISAGREES", f"one damaged member ({label}) between two good ones [read_archive]", "" if got == want else f"got {short(got)} want {short(want)}")
        except Exception as e:
            line("EXTRACTOR-DISAGREES", f"one damaged member ({label}) between two good ones [read_archive]", f"{type(e).__name__}: {e} - expected results {want}"[:300])


def check_libarchive(valid):
    """optional third reader: bsdtar (libarchive) lists and extracts the honest archives"""
    exe = next((c for c in (shutil.which("bsdtar"), "/root/miniconda/bin/bsdtar") if c and os.path.exists(c)), None)
    if exe is None:
        line("NOTE", "bsdtar (libarchive) not found: third reader not used")
        return
    bad = []
    env = dict(os.environ, LC_ALL="C.UTF-8")
    for name, members, blob in valid:
        if any(m.get("method") == 14 and not m.get("data") for m in members):
            # libarchive cannot decode a zero-length LZMA member ("lzma unknown error 10"); zipfile writes and reads exactly
            # these bytes, so the member is kept in the writer and only left out of this cross-check
            members = [m for m in members if not (m.get("method") == 14 and not m.get("data"))]
            blob = Z.zipforge(members)
            line("NOTE", name + ": zero-length LZMA member left out of the libarchive cross-check (libarchive limit)")
        with tempfile.TemporaryDirectory(prefix="sp2t-verif-stzip-") as td:
            p = os.path.join(td, "t.zip")
            with open(p, "wb") as fh:
                fh.write(blob)
            r1 = subprocess.run([exe, "-tf", p], capture_output=True, env=env)
            r2 = subprocess.run([exe, "-xOf", p], capture_output=True, env=env)
        want = expected(members)
        if r1.returncode or r2.returncode or r1.stdout.decode().splitlines() != [w[0] for w in want] or r2.stdout != b"".join(w[2] for w in want):
            bad.append((name, r1.returncode, r2.returncode, (r1.stderr + r2.stderr)[:120]))
    line("OK" if not bad else "WRITER-INVALID", f"libarchive ({exe}) lists and extracts {len(valid)} honest archives identically", short(bad) if bad else "")


def check_infozip(tk: Tokens):
    """optional fourth reader: Info-ZIP `unzip -t` (stored, deflate, bzip2, ZipCrypto with and without data descriptor, UTF-8
    name, comment) and `zipinfo` on ZIP64 forgeries"""
    exe, zi = shutil.which("unzip"), shutil.which("zipinfo")
    if not exe or not zi:
        line("NOTE", "Info-ZIP unzip/zipinfo not found: fourth reader not used")
        return
    m = [{"name": "s.txt", "data": tk.new("B").encode()}, {"name": "d", "is_dir": True}, {"name": "d/x.txt", "data": tk.new("B").encode() * 30, "method": 8},
         {"name": "b.txt", "data": b"bz" * 40, "method": 12}, {"name": "p.txt", "data": b"secret", "password": b"pw", "method": 8},
         {"name": "q.txt", "data": b"secret2", "password": b"pw", "method": 0, "flag_bits": 8}, {"name": "dd.txt", "data": b"descr", "flag_bits": 8, "method": 8},
         {"name": "ü.txt", "data": b"u"}]
    with tempfile.TemporaryDirectory(prefix="sp2t-verif-stzip-") as td:
        p = os.path.join(td, "t.zip")
        with open(p, "wb") as fh:
            fh.write(Z.zipforge(m, {"comment": b"hello"}))
        r = subprocess.run([exe, "-P", "pw", "-t", p], capture_output=True, text=True)
        ok = r.returncode == 0 and "No errors detected" in r.stdout and r.stdout.count(" OK") == len(m)
        line("OK" if ok else "WRITER-INVALID", "Info-ZIP `unzip -t`: stored/deflate/bzip2/ZipCrypto/data-descriptor/UTF-8 members all test OK", "" if ok else short(r.stdout + r.stderr, 300))
        with open(p, "wb") as fh:
            fh.write(Z.zipforge([{"name": "a.txt", "data": b"x", "file_size": 5 * 1024 ** 3}]))
        r = subprocess.run([zi, p], capture_output=True, text=True)
        ok = "5368709120" in r.stdout
        line("FORGED-OK" if ok else "WRITER-INVALID", "Info-ZIP zipinfo shows the forged ZIP64 file_size 5368709120", "" if ok else short(r.stdout + r.stderr, 300))
        with open(p, "wb") as fh:
            fh.write(Z.zipforge([{"name": f"{i}.txt", "data": b""} for i in range(70000)]))
        r = subprocess.run([zi, "-t", p], capture_output=True, text=True)
        ok = r.stdout.startswith("70000 files")
        line("OK" if ok else "WRITER-INVALID", "Info-ZIP zipinfo counts 70000 entries through the ZIP64 end records", "" if ok else short(r.stdout + r.stderr, 300))


def main():
    tk = Tokens(0)
    valid = check_honest(tk)
    check_libarchive(valid)
    check_infozip(tk)
    check_names(tk)
    check_crypto(tk)
    check_forged(tk)
    check_library(tk, valid)
    print()
    print("SUMMARY selftest_zipforge: " + "  ".join(f"{k}={v}" for k, v in COUNTS.items()))
    if DISAGREE:
        print(f"EXTRACTOR-DISAGREES cases ({len(DISAGREE)}), archives are valid for zipfile:")
        for n, d in DISAGREE:
            print(f"  - {n}: {d[:260]}")
    if COUNTS["WRITER-INVALID"]:
        print("WRITER-INVALID present: the writer (or this self-test) has a bug")
    return 0


if __name__ == "__main__":
    sys.exit(main())
