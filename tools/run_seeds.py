#!/venv/bin/python
"""run_seeds.py [seed ...] : run the property's quick check against each seeded change and record the outcome in meta.json.
The change is applied in a scratch worktree of /repo HEAD (removed afterwards); the check imports the library from there
through PYTHONPATH, so /repo itself is never touched (equivalent to `git -C /repo apply`, run, `git -C /repo checkout -- .`)."""
import json, os, re, subprocess, sys, tempfile, shutil, time
ROOT = "/verif/seeded"
seeds = sys.argv[1:] or sorted(d for d in os.listdir(ROOT) if os.path.isdir(os.path.join(ROOT, d)))
def sh(cmd, **kw):
    return subprocess.run(cmd, shell=True, capture_output=True, text=True, **kw)
ALSO = {"C06-m1": ["C15"], "C03-m2": ["C16"], "C05-m1": ["C06"], "C14-m2": ["C06"], "C06-m4": ["C15"], "C08-m4": ["C20"], "C15-m4": ["C06"],
        "C01-m3": ["C12"], "C02-m3": ["C17"], "C12-m3": ["C09"], "C03-m5": ["C13"], "C04-m7": ["C15"], "C03-m8": ["C06"], "C15-m14": ["C06"]}
man = json.load(open("/verif/MANIFEST.json"))
claimed = {c["property_id"] for c in man["checks"]}
for s in seeds:
    d = os.path.join(ROOT, s)
    prop = s.split("-")[0]
    meta_p = os.path.join(d, "meta.json")
    meta = json.load(open(meta_p)) if os.path.exists(meta_p) else {}
    notes = open(os.path.join(d, "notes.md")).read() if os.path.exists(os.path.join(d, "notes.md")) else ""
    conf = json.load(open(os.path.join(d, "confirm.json"))) if os.path.exists(os.path.join(d, "confirm.json")) else {}
    meta.update({"seed": s, "breaks_property": prop, "needs_to_manifest": notes.strip(), "confirmed": conf.get("confirmed"),
                 "confirmation": {k: conf.get(k) for k in ("repo_head", "suite", "demo_clean_exit", "demo_mutant_exit")}})
    if prop not in claimed:
        meta["detection"] = {"status": "property check not built yet"}
        json.dump(meta, open(meta_p, "w"), indent=1); print(s, "skip (no check)"); continue
    wt = tempfile.mkdtemp(prefix="sp2t-seedrun-", dir="/tmp"); os.rmdir(wt)
    try:
        r = sh(f"git -C /repo worktree add -q --detach {wt} HEAD"); assert r.returncode == 0, r.stderr
        r = sh(f"git -C {wt} apply {d}/patch.diff")
        if r.returncode != 0:
            meta["detection"] = {"status": "patch does not apply to current /repo HEAD", "err": r.stderr[-300:]}
            print(s, "patch does not apply")
        else:
            env = dict(os.environ); env["PYTHONPATH"] = wt; env["VERIF_MAX_NEW_SHAPES"] = "3"
            # the seed's own property first; a change can also (or only) be visible to the check of a neighbouring property
            for chk in [prop] + ALSO.get(s, []):
                t0 = time.time()
                r = sh(f"/verif/check {chk} --tier quick --no-evidence", env=env, cwd="/verif")
                viol = [l for l in r.stdout.splitlines() if l.startswith("VIOLATION")]
                det = [l.strip() for l in r.stdout.splitlines() if l.strip().startswith("detail:")]
                ok = r.returncode == 1 and bool(viol)
                meta.setdefault("detection_runs", {})[chk] = "detected" if ok else f"not detected (exit {r.returncode})"
                meta["detection"] = {"status": f"detected by {chk}" if ok else f"NOT detected (exit {r.returncode})",
                                     "command": f"PYTHONPATH=<scratch worktree with patch> ./check {chk} --tier quick", "exit": r.returncode,
                                     "violations": len(viol), "first_detail": det[:2], "repo_head": sh("git -C /repo rev-parse --short HEAD").stdout.strip(),
                                     "wall_s": round(time.time() - t0, 1)}
                if ok:
                    break
            print(s, meta["detection"]["status"], (det[:1] or [""])[0][:160])
    finally:
        sh(f"git -C /repo worktree remove --force {wt}"); shutil.rmtree(wt, ignore_errors=True)
    json.dump(meta, open(meta_p, "w"), indent=1)
