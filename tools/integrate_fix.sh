#!/bin/bash
# integrate_fix.sh <diff> <msgfile> : apply one repair to /repo, run the pinned suite, commit it as its own "fix:" commit (or roll back)
set -u
d="$1"; m="$2"
cd /repo || exit 2
git diff --quiet || { echo "repo dirty"; exit 2; }
git apply --3way "$d" || { echo "APPLY-FAILED $d"; git checkout -q -- . ; git reset -q; exit 3; }
/verif/tools/baseline.py /repo | tail -3
if [ "${PIPESTATUS[0]}" != "0" ]; then echo "BASELINE-BROKEN $d"; git checkout -q -- .; git reset -q; git clean -qfd sharepoint2text; exit 4; fi
msg="$(head -1 "$m")"
case "$msg" in "fix: "*) ;; *) msg="fix: $msg";; esac
git add -A sharepoint2text && git commit -qm "$msg" && git log --oneline | head -1
