#!/usr/bin/env python3
"""Regenerate the machine-made tables of DESIGN.md (between <!-- BEGIN:x --> / <!-- END:x --> markers) from
known_findings.json, seeded/*/meta.json and the fix: commits of /repo."""
import json, os, re, subprocess, collections
ROOT = os.path.dirname(os.path.dirname(os.path.abspath(__file__)))
def sh(c): return subprocess.run(c, shell=True, capture_output=True, text=True).stdout
k = json.load(open(os.path.join(ROOT, "known_findings.json")))
# fixes
fix_lines = ["| commit | property | what failed before the repair |", "|---|---|---|"]
for f in k["fixed"]:
    w = re.sub(r"^fixed: property=\S+ \S+ ", "", f["what"])
    fix_lines.append(f"| {f['commit']} | {f['property']} | {w} |")
# known findings summary
by = collections.defaultdict(list)
for f in k["findings"]:
    by[f["property"]].append(f)
kf = ["| property | recorded shapes | by format/clause |", "|---|---|---|"]
for p in sorted(by):
    c = collections.Counter(f"{f['fmt']}/{f['clause']}" for f in by[p])
    kf.append(f"| {p} | {len(by[p])} | " + ", ".join(f"{a} x{n}" if n > 1 else a for a, n in sorted(c.items())) + " |")
# seeds
sd = ["| seeded change | breaks | what it needs to manifest | confirmed (suite baseline, demo fails/passes) | detected by |", "|---|---|---|---|---|"]
sroot = os.path.join(ROOT, "seeded")
for s in sorted(os.listdir(sroot)):
    mp = os.path.join(sroot, s, "meta.json")
    if not os.path.exists(mp):
        continue
    m = json.load(open(mp))
    need = re.sub(r"\s+", " ", m.get("needs_to_manifest", ""))
    mm = re.search(r"(Needed to manifest|What it needs|needs?)[^:]*:\**\s*(.+?)(?:\s- |\s\*\*|$)", need, re.I)
    need_s = (mm.group(2) if mm else need)[:220].replace("|", "/")
    det = m.get("detection", {}).get("status", "?")
    sd.append(f"| {s} | {m.get('breaks_property')} | {need_s} | {'yes' if m.get('confirmed') else 'NO'} | {det} |")
doc = open(os.path.join(ROOT, "DESIGN.md")).read()
for name, lines in (("FIXES", fix_lines), ("KNOWN", kf), ("SEEDS", sd)):
    b, e = f"<!-- BEGIN:{name} -->", f"<!-- END:{name} -->"
    if b in doc:
        doc = doc[:doc.index(b) + len(b)] + "\n" + "\n".join(lines) + "\n" + doc[doc.index(e):]
open(os.path.join(ROOT, "DESIGN.md"), "w").write(doc)
print("fixes", len(fix_lines) - 2, "known props", len(by), "seeds", len(sd) - 2)
