#!/bin/bash
# integrate_group.sh <group-dir> [n...] : apply the group's repairs to /repo as separate "fix:" commits, then run the pinned suite once;
# on a broken baseline everything of the group is rolled back (then integrate one by one with integrate_fix.sh)
set -u
g="$1"; shift
cd /repo || exit 2
git diff --quiet || { echo "repo dirty"; exit 2; }
start=$(git rev-parse HEAD)
ns="$*"; [ -z "$ns" ] && ns=$(ls "$g"/_out/fix-*.diff | sed 's/.*fix-\([0-9]*\)\.diff/\1/' | sort -n)
for n in $ns; do
  d="$g/_out/fix-$n.diff"; m="$g/_out/fix-$n.msg"
  git apply --3way "$d" 2>/tmp/apply.err || { echo "APPLY-FAILED $d"; cat /tmp/apply.err | tail -5; git checkout -q -- . ; git reset -q --hard "$start"; exit 3; }
  msg="$(head -1 "$m")"; case "$msg" in "fix: "*) ;; *) msg="fix: $msg";; esac
  git add -A sharepoint2text && git commit -qm "$msg" && git log --oneline | head -1
done
/verif/tools/baseline.py /repo | tail -3
if [ "${PIPESTATUS[0]}" != "0" ]; then echo "BASELINE-BROKEN group $g -> rolled back"; git reset -q --hard "$start"; exit 4; fi
echo "GROUP-OK $g"
