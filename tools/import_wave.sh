#!/bin/bash
# import_wave.sh <wtroot> <k1> <k2> <props...> : copy <wtroot>/<prop>/_out/m1,m2 to seeded/<prop>-m<k1>,m<k2> and confirm them (4 in parallel)
root="$1"; k1="$2"; k2="$3"; shift 3
list=""
for p in "$@"; do
  for pair in "1:$k1" "2:$k2"; do
    a="${pair%%:*}"; b="${pair##*:}"
    src="$root/$p/_out/m$a"; dst="/verif/seeded/$p-m$b"
    [ -f "$src/patch.diff" ] || { echo "missing $src"; continue; }
    mkdir -p "$dst"; cp "$src/patch.diff" "$src/demo.py" "$dst/"; cp "$src/notes.md" "$dst/" 2>/dev/null
    list="$list $dst"
  done
done
echo $list | tr ' ' '\n' | xargs -P 4 -I{} sh -c '/verif/tools/confirm_seed.py {} > {}/confirm.log 2>&1; echo "$(basename {}) confirmed=$(grep -c "\"confirmed\": true" {}/confirm.json)"'
