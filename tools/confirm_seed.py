#!/venv/bin/python
"""confirm_seed.py <seed-dir>: verify a seeded change in a scratch worktree of /repo HEAD.
Checks: patch applies; pinned suite still gives the baseline stable-pass set; demo fails with the patch, passes without.
Writes <seed-dir>/confirm.json. The worktree is removed afterwards."""
import json, os, subprocess, sys, tempfile, shutil
d = os.path.abspath(sys.argv[1])
wt = tempfile.mkdtemp(prefix="sp2t-seed-", dir="/tmp")
os.rmdir(wt)
out = {"seed": os.path.basename(d)}
def sh(cmd, **kw):
    return subprocess.run(cmd, shell=True, capture_output=True, text=True, **kw)
try:
    r = sh(f"git -C /repo worktree add -q --detach {wt} HEAD"); assert r.returncode == 0, r.stderr
    out["repo_head"] = sh("git -C /repo rev-parse --short HEAD").stdout.strip()
    env = dict(os.environ); env["PYTHONPATH"] = wt; env.pop("SP2T_VERIF", None)
    demo = os.path.join(d, "demo.py")
    shutil.copy(demo, os.path.join(wt, "_demo.py"))
    r = sh("/venv/bin/python _demo.py", cwd=wt, env=env); out["demo_clean_exit"] = r.returncode; out["demo_clean_tail"] = (r.stdout + r.stderr)[-300:]
    r = sh(f"git -C {wt} apply {d}/patch.diff"); out["applies"] = r.returncode == 0; out["apply_err"] = r.stderr[-300:]
    if out["applies"]:
        r = sh("/venv/bin/python _demo.py", cwd=wt, env=env); out["demo_mutant_exit"] = r.returncode; out["demo_mutant_tail"] = (r.stdout + r.stderr)[-400:]
        r = sh(f"/verif/tools/baseline.py {wt}"); out["suite"] = r.stdout.strip().splitlines()[0] if r.stdout else r.stderr[-200:]; out["suite_ok"] = r.returncode == 0
    out["confirmed"] = bool(out.get("applies") and out.get("suite_ok") and out.get("demo_clean_exit") == 0 and out.get("demo_mutant_exit") not in (0, None))
finally:
    sh(f"git -C /repo worktree remove --force {wt}")
    shutil.rmtree(wt, ignore_errors=True)
json.dump(out, open(os.path.join(d, "confirm.json"), "w"), indent=1)
print(json.dumps(out, indent=1))
sys.exit(0 if out.get("confirmed") else 1)
