#!/venv/bin/python
"""Run the pinned test suite of a tree (default /repo) and compare with BASELINE.json stable_pass."""
import json, subprocess, sys, tempfile, os, xml.etree.ElementTree as ET
tree = sys.argv[1] if len(sys.argv) > 1 else "/repo"
base = json.load(open("/root/.vp/BASELINE.json"))
with tempfile.TemporaryDirectory() as d:
    x = os.path.join(d, "j.xml")
    env = dict(os.environ); env.pop("SP2T_VERIF", None); env["PYTHONPATH"] = tree
    subprocess.run(["/venv/bin/python", "-m", "pytest", "-q", "-p", "no:cacheprovider", "--timeout=900", "--continue-on-collection-errors",
                    f"--junitxml={x}"], cwd=tree, env=env, stdout=subprocess.DEVNULL, stderr=subprocess.DEVNULL)
    passed = set()
    for tc in ET.parse(x).getroot().iter("testcase"):
        if not any(c.tag in ("failure", "error", "skipped") for c in tc):
            passed.add(f"{tc.get('classname')}::{tc.get('name')}")
missing = sorted(set(base["stable_pass"]) - passed)
print(f"tree={tree} passed={len(passed)} baseline={len(base['stable_pass'])} missing={len(missing)}")
for m in missing: print("  MISSING", m)
sys.exit(1 if missing else 0)
