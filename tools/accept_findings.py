#!/venv/bin/python
"""accept_findings.py PROP [--tier quick|thorough] [--only fp,fp] [--note TEXT]
Run the check (no evidence), and record every VIOLATION it reports as a known finding in /verif/known_findings.json.
Used by the maintainer of /verif AFTER each reported shape has been reviewed and judged a genuine library defect that is
recorded rather than repaired. The checks themselves never write this file."""
import argparse, json, os, re, subprocess, sys
ap = argparse.ArgumentParser(); ap.add_argument("prop"); ap.add_argument("--tier", default="quick"); ap.add_argument("--only", default="")
ap.add_argument("--note", default=""); ap.add_argument("--cap", default="400")
a = ap.parse_args()
env = dict(os.environ); env["VERIF_MAX_NEW_SHAPES"] = a.cap
r = subprocess.run(["/verif/check", a.prop, "--tier", a.tier, "--no-evidence"], capture_output=True, text=True, env=env, cwd="/verif")
paths = re.findall(r"^VIOLATION property=\S+ replay=(\S+)$", r.stdout, re.M)
k = json.load(open("/verif/known_findings.json"))
have = {f["fingerprint"] for f in k["findings"]}
only = set(filter(None, a.only.split(",")))
n = 0
for p in paths:
    rp = json.load(open(p))
    fp = rp["fingerprint"]
    if fp in have or (only and fp not in only):
        continue
    k["findings"].append({"property": a.prop, "fingerprint": fp, "fmt": rp["fmt"], "clause": rp["clause"], "minimal": rp["abstract"],
                          "what": (a.note + " " if a.note else "") + str(rp["message"])[:400], "first_seen_tier": a.tier})
    n += 1
json.dump(k, open("/verif/known_findings.json", "w"), indent=1, ensure_ascii=True)
print(f"{a.prop} {a.tier}: exit={r.returncode} violations={len(paths)} added={n}")
print(r.stdout.strip().splitlines()[-1] if r.stdout.strip() else r.stderr[-500:])
