#!/usr/bin/env python3
"""Regenerate MANIFEST.json from tools/manifest_src.py (keeps it valid at all times)."""
import json, os, sys
sys.path.insert(0, os.path.dirname(__file__))
from manifest_src import CHECKS, NOT_APPLICABLE, HOOK_COMMITS
BASE = json.load(open("/root/.vp/BASELINE.json"))["cmd"] if os.path.exists("/root/.vp/BASELINE.json") else ""
man = {
 "version": 1,
 "setup_cmd": "/venv/bin/python -B -c \"import sharepoint2text\" && chmod +x /verif/check",
 "hooks": {"guard": "SP2T_VERIF", "enable": "none needed: all instrumentation is external (sys.settrace, sys.addaudithook, request_func seam, harness-side wrappers); ./check exports SP2T_VERIF=1 but the repository contains no guarded code",
           "baseline_off_cmd": "cd /repo && env -u SP2T_VERIF /venv/bin/python -m pytest -ra -q -p no:cacheprovider --timeout=900 --continue-on-collection-errors",
           "source_commits": HOOK_COMMITS, "add_only": True},
 "engines": [{"name": "mc", "path": "/verif/verif/mc", "serves_properties": [c["property_id"] for c in CHECKS],
              "kind_free_text": "hand-written bounded-exhaustive explorers executed on the implementation: grammar/term enumeration (inputs), explicit-state BFS over histories, baton-scheduler stateless exploration with preemption bounding (schedules), environment-answer deviation enumeration (fault sequences)"}],
 "checks": [], "not_applicable": NOT_APPLICABLE,
 "notes": "See DESIGN.md. known_findings.json lists recorded genuine defects (never written at run time); seeded/ holds confirmed property-breaking changes used to demonstrate detection."}
for c in CHECKS:
    pid = c["property_id"]
    man["checks"].append({"property_id": pid, "quick_cmd": f"./check {pid} --tier quick", "thorough_cmd": f"./check {pid} --tier thorough",
        "evidence_file": f"/verif/evidence/{pid}.json", "replay_cmd_template": f"./check {pid} --replay {{path}}", "engine": "mc",
        "level_claimed": {"category": c["category"], "text": c["text"], "design_ref": c.get("design_ref", f"DESIGN.md section 2 ({pid})")},
        "level_note": c["note"], "technique": c["technique"]})
json.dump(man, open(os.path.join(os.path.dirname(__file__), "..", "MANIFEST.json"), "w"), indent=1)
print("checks:", [c["property_id"] for c in CHECKS], "n/a:", [n["property_id"] for n in NOT_APPLICABLE])
