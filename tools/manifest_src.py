HOOK_COMMITS = []
CHECKS = [
 {"property_id": "C19", "category": "exploration",
  "text": "Every OMML tree of a constructor grammar (all 11 structures, every optional child present/absent/empty, every chr/begChr/endChr presence variant, bracket and symbol runs, oMathPara/property wrappers; all 2- and 3-sequences over a 65-node alphabet; every operand slot nested to depth 3 (quick) / 4 (thorough); all ordered pairs of formulas as 2-step histories) is converted by the real omml_to_latex and checked for totality, determinism, exactly-once/in-order run text, brace balance and equality with a reference transcription of the documented templates. Exhaustive within those bounds; says nothing about deeper trees.",
  "note": "Trusted: ElementTree built in memory == parsed XML; reference templates transcribed from the module docstring and compared only on the well-formed subset.",
  "technique": "bounded-exhaustive term enumeration (SmallCheck style) executed on the implementation, reference-model comparison"},
 {"property_id": "C17", "category": "model_checking",
  "text": "The removal logic of the HTML-family parsers is a small state machine (visible / hidden(element, depth)); every delimited parser-event sequence of length <= 3 (quick) / <= 4-5 (thorough) over a 19-symbol content alphabet (open/close of block, inline and table tags, void tags in both spellings, nested raw-text and ordinary removable elements, the element's own tag, text, comment, CDATA) is rendered to markup for each of the 7 removable elements in 4 contexts and fed to the real read_html, read_mhtml (3 transfer encodings), read_epub (single chapter and 3-chapter books whose first chapter ends inside an unterminated removable element) and the MSG HTML body converter; a two-state reference automaton assigns each token the class must-be-visible / must-not-appear. Exhaustive within the bounds.",
  "note": "Trusted: Python's html.parser tokenisation (shared by implementation and rendering), the reference automaton (same-name nesting; raw-text elements end at first end tag), EPUB/MHTML writers in verif/gen/htmlfam.py.",
  "technique": "exhaustive enumeration of bounded parser-event sequences executed on the implementation against a reference automaton"},
]
_BUILT = {c["property_id"] for c in CHECKS}
NOT_APPLICABLE = [{"property_id": f"C{i:02d}", "reason": "check under construction in this round (see DESIGN.md section 9 build order); not yet claimed"} for i in range(1, 21) if f"C{i:02d}" not in _BUILT]
