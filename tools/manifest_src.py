HOOK_COMMITS = []
CHECKS = [
 {"property_id": "C19", "category": "exploration",
  "text": "Every OMML tree of a constructor grammar (all 11 structures, every optional child present/absent/empty, every chr/begChr/endChr presence variant, bracket and symbol runs, oMathPara/property wrappers; all 2- and 3-sequences over a 65-node alphabet; every operand slot nested to depth 3 (quick) / 4 (thorough); all ordered pairs of formulas as 2-step histories) is converted by the real omml_to_latex and checked for totality, determinism, exactly-once/in-order run text, brace balance and equality with a reference transcription of the documented templates. Exhaustive within those bounds; says nothing about deeper trees.",
  "note": "Trusted: ElementTree built in memory == parsed XML; reference templates transcribed from the module docstring and compared only on the well-formed subset.",
  "technique": "bounded-exhaustive term enumeration (SmallCheck style) executed on the implementation, reference-model comparison"},
]
_BUILT = {c["property_id"] for c in CHECKS}
NOT_APPLICABLE = [{"property_id": f"C{i:02d}", "reason": "check under construction in this round (see DESIGN.md section 9 build order); not yet claimed"} for i in range(1, 21) if f"C{i:02d}" not in _BUILT]
