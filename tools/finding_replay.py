#!/venv/bin/python
"""finding_replay.py <fingerprint-prefix|PROP> [outdir] : write replay files for recorded known findings so that a single finding can
be re-executed with `./check PROP --replay <file>` (exit 1 + VIOLATION line while the defect is there, exit 0 once it is repaired)."""
import json, os, sys
sel = sys.argv[1]
out = sys.argv[2] if len(sys.argv) > 2 else "/tmp/finding-replays"
k = json.load(open(os.path.join(os.path.dirname(os.path.dirname(os.path.abspath(__file__))), "known_findings.json")))
for f in k["findings"]:
    if f["fingerprint"].startswith(sel) or f["property"] == sel:
        d = os.path.join(out, f["property"]); os.makedirs(d, exist_ok=True)
        p = os.path.join(d, f["fingerprint"] + ".json")
        json.dump({"property": f["property"], "fingerprint": f["fingerprint"], "fmt": f["fmt"], "clause": f["clause"], "case": f["minimal"]}, open(p, "w"), indent=1)
        print(f"{f['property']} {f['fmt']} {f['clause']} -> /verif/check {f['property']} --replay {p}   # {f['what'][:100]}")
