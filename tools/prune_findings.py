#!/venv/bin/python
"""prune_findings.py PROP...: run quick and thorough (no evidence) and drop recorded findings of PROP that reproduce in neither
tier any more (stale entries left behind by fix: commits). Never adds entries. Maintenance tool, not used by the checks."""
import json, os, re, subprocess, sys
k = json.load(open("/verif/known_findings.json"))
for prop in sys.argv[1:]:
    seen = set()
    bad = False
    for tier in ("quick", "thorough"):
        r = subprocess.run(["/verif/check", prop, "--tier", tier, "--no-evidence"], capture_output=True, text=True, cwd="/verif",
                           env=dict(os.environ, VERIF_MAX_NEW_SHAPES="400"))
        seen |= set(re.findall(r"^KNOWN-FINDING: property=\S+ fingerprint=(\w+)", r.stdout, re.M))
        if r.returncode not in (0,):
            print(prop, tier, "exit", r.returncode, "- not pruning"); bad = True
    if bad:
        continue
    before = len(k["findings"])
    k["findings"] = [f for f in k["findings"] if f["property"] != prop or f["fingerprint"] in seen]
    print(prop, "kept", sum(1 for f in k["findings"] if f["property"] == prop), "dropped", before - len(k["findings"]))
json.dump(k, open("/verif/known_findings.json", "w"), indent=1, ensure_ascii=True)
